#!/usr/bin/env python3
"""Pre-build source generation hook of /verif/check.

usage: pregen.py <PROPERTY-ID> <tier> <seed>

Called before every build. For C19 it regenerates `c19_gen.rs` (the family of wire type definitions,
their reference layouts and harnesses) in the harness directory ($VERIF_HDIR, default
/verif/kani/harness). No-op for every other property.
"""
import os, subprocess, sys


def main():
    prop = sys.argv[1] if len(sys.argv) > 1 else ""
    tier = sys.argv[2] if len(sys.argv) > 2 else "quick"
    seed = sys.argv[3] if len(sys.argv) > 3 else "0"
    if prop != "C19":
        return 0
    hdir = os.environ.get("VERIF_HDIR", "/verif/kani/harness")
    gen = os.path.join(os.path.dirname(os.path.abspath(__file__)), "gen_layouts.py")
    p = subprocess.run([sys.executable, gen, hdir, tier, seed], stdout=subprocess.PIPE, stderr=subprocess.STDOUT, text=True)
    sys.stdout.write(p.stdout)
    return p.returncode


if __name__ == "__main__":
    sys.exit(main())

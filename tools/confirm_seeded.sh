#!/bin/bash
# Confirms each seeded change in a scratch worktree: demo passes without the patch, fails with it, full suite with patch only.
# usage: confirm_seeded.sh <base-commit> S01 S02 ...
BASE=$1; shift
W=/tmp/confirm_wt
git -C /repo worktree remove --force $W 2>/dev/null
git -C /repo worktree add -q $W $BASE || exit 1
cp /repo/Cargo.lock $W/ 2>/dev/null
export RUSTUP_TOOLCHAIN=1.88.0 CARGO_NET_OFFLINE=true
cd $W
for S in "$@"; do
  D=/verif/seeded/$S
  CMD=$(python3 -c "import json;print(json.load(open('$D/meta.json'))['demo_cmd'])")
  P=$D/patch.diff; [ -f $D/patch.orig.diff ] && P=$D/patch.orig.diff
  git checkout -q -- . ; git clean -fdq src tests ethercrab-wire ethercrab-wire-derive
  git apply $D/demo.diff || { echo "$S demo.diff does not apply"; continue; }
  # strip any leading 'cd ... &&' and toolchain override from the recorded command
  C=$(echo "$CMD" | sed -E 's/^.*cargo (\+[0-9.]+ )?test/cargo test/')
  ( eval "$C" ) > /tmp/confirm_$S.a.log 2>&1; A=$?
  git apply $P || { echo "$S patch does not apply"; continue; }
  ( eval "$C" ) > /tmp/confirm_$S.b.log 2>&1; B=$?
  git checkout -q -- . ; git clean -fdq src tests ethercrab-wire ethercrab-wire-derive
  git apply $P
  cargo test --workspace --no-fail-fast --offline > /tmp/confirm_$S.c.log 2>&1
  FAILS=$(grep -E "^test .* FAILED" /tmp/confirm_$S.c.log | sort -u | tr '\n' ' ')
  echo "$S demo_without_patch_rc=$A demo_with_patch_rc=$B suite_failed_tests=[$FAILS]"
done
cd /; git -C /repo worktree remove --force $W

#!/bin/bash
# Offline setup: copy the lock file and warm the Kani builds of the harness package for the three
# hook configurations (base, h1, yield) so that the first check of each configuration is not a cold build.
set -e
cd "$(dirname "$0")/../kani"
cp /repo/Cargo.lock Cargo.lock
export CARGO_NET_OFFLINE=true ETHERCRAB_VERIF_DIR=/verif/kani/harness
python3 ../tools/pregen.py C19 quick 0 > /tmp/verif-setup-pregen.log 2>&1 || true
build() { # name, full RUSTFLAGS (must equal the runner's string exactly, no trailing blank)
  RUSTFLAGS="$2" cargo kani --target-dir /verif/kani/target-$1 --only-codegen --no-assertion-reach-checks -Z stubbing > /tmp/verif-setup-$1.log 2>&1 || { tail -40 /tmp/verif-setup-$1.log; exit 1; }
}
build base "--cfg ethercrab_verif"
build h1 "--cfg ethercrab_verif --cfg ethercrab_verif_h1"
build yield '--cfg ethercrab_verif --cfg ethercrab_verif_yield="on"'
echo setup ok

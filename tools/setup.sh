#!/bin/bash
# Offline setup: copy the lock file and warm the Kani build of the harness package.
set -e
cd "$(dirname "$0")/../kani"
cp /repo/Cargo.lock Cargo.lock
. ../tools/kenv.sh
cargo kani --target-dir /verif/kani/target-base --only-codegen --no-assertion-reach-checks -Z stubbing > /tmp/verif-setup.log 2>&1 || { tail -50 /tmp/verif-setup.log; exit 1; }
echo setup ok

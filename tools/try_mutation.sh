#!/bin/bash
# usage: try_mutation.sh <patch.diff> <PROP> [check args...]  : apply a seeded change to /repo, run the check, undo it.
set -u
P="$1"; PROP="$2"; shift 2
cd /repo || exit 3
git apply --check "$P" || { echo "PATCH DOES NOT APPLY"; exit 3; }
git apply "$P"
cd /verif
VERIF_NO_PLAYBACK=${VERIF_NO_PLAYBACK:-1} ./check "$PROP" --no-evidence "$@"
rc=$?
cd /repo && git apply -R "$P" || echo "WARNING: could not revert $P"
echo "try_mutation rc=$rc"
exit $rc

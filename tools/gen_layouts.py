#!/usr/bin/env python3
"""C19 generator: writes <outdir>/c19_gen.rs.

usage: gen_layouts.py <outdir> <tier: quick|thorough> <seed>

The quantifier of C19 over *programs* (type definitions handed to ethercrab-wire-derive) cannot be a
solver variable: the macro runs at compile time. It is covered by a generated family of definitions,
each compiled by the real derive macro, plus every derived wire type of /repo/src that can be named
from `crate::verif`. For every member the quantifier over *inputs* (field values, buffers, buffer
lengths) is decided by CBMC.

For every definition this script computes the declared layout ITSELF (sequential placement:
pre_skip, width, post_skip; Rust's own rule for enum discriminants) and emits, next to the
definition, reference code driven by that layout:
    any_X()   a fully symbolic value            exp_X()   expected wire image (reference bit placer)
    chk_X()   value == reference decoding        valid_X() every enum position holds a defined value
    fits_X()  every field value fits its width   eq_X()    leaf-wise equality
    check_X() the assertions (placement, zero padding, checked pack, decode, short buffers, round trip)
The reference bit placer (`ref_get`/`ref_put`) lives in c19.rs.

Family (deterministic):
  A  one bit field (offset o, width w, o+w<=8) in byte 0 or 1 of a 3 byte struct between fillers
  B  compositions of 8 (<= 4 parts) tiling one byte, parts rotating over u8/bool/enum/skip
  C  multi-byte primitives at byte offsets 0..3 with byte/bit skips, explicit and inferred widths
  D  enums (plain, catch_all, default, alternatives, signed, wide repr, implicit discriminants),
     bool widths, nested structs, arrays, floats, wider-than-type fields, non byte-multiple totals,
     read-only / write-only derives
  R  random structs (1..12 fields, <= 16 bytes) from a fixed seed
  S  random structs from VERIF_SEED (extra)
  I  the derived wire types of /repo/src (parsed from the sources)
  F  layouts the macro accepts but mishandles (candidate findings; harnesses expected to FAIL)
"""
import os, random, re, sys

PRIM = {"u8": (8, False), "u16": (16, False), "u32": (32, False), "u64": (64, False),
        "i8": (8, True), "i16": (16, True), "i32": (32, True), "i64": (64, True)}
FLOAT = {"f32": 32, "f64": 64}


# =================================================================================================
# model
class Enum:
    def __init__(self, ident, repr_, variants, derive="RW", path=None, partial_eq=True, wire_bits=None):
        self.ident, self.repr, self.variants, self.derive = ident, repr_, variants, derive
        self.path = path or ident          # Rust path of the type
        self.defined = path is None        # emit a definition?
        self.wire_bits = wire_bits
        self.size = PRIM[repr_][0] // 8
        self.signed = PRIM[repr_][1]
        # Rust's rule: first implicit discriminant is 0, otherwise previous + 1 (alternatives do
        # not take part: they are an attribute of the derive macro, not of the language).
        prev = -1
        for v in self.variants:
            v.setdefault("alts", [])
            v.setdefault("default", False)
            v.setdefault("catch_all", False)
            v["implicit"] = v.get("disc") is None
            v["rdisc"] = prev + 1 if v["implicit"] else v["disc"]
            prev = v["rdisc"]
        self.catch_all = next((v for v in self.variants if v["catch_all"]), None)
        self.default = next((v for v in self.variants if v["default"]), None)
        self.fallible = self.catch_all is None and self.default is None

    def pat(self, d):
        """two's complement bit pattern of discriminant d in the repr width"""
        return d & ((1 << (8 * self.size)) - 1)

    def named(self):
        return [v for v in self.variants if not v["catch_all"]]


class Field:
    def __init__(self, name, ty, bits=None, pre=0, post=0, skip=False, spell=None, vis=True, kind=None, ref=None, n=0):
        self.name, self.ty, self.bits, self.pre, self.post, self.skip = name, ty, bits, pre, post, skip
        self.spell = spell or {}   # how to spell the attribute: {'w': 'bits'|'bytes'|None, 'pre': 'bits'|'bytes', 'post': ...}
        self.vis = vis             # field readable/constructible from crate::verif
        self.kind, self.ref, self.n = kind, ref, n
        self.start = None


class Struct:
    def __init__(self, ident, fields, derive="RW", path=None, total_bits=None, spell="auto", note="", packed=False, custom_def=None):
        self.ident, self.fields, self.derive = ident, fields, derive
        self.path = path or ident
        self.defined = path is None
        self.note = note
        self.packed = packed          # #[repr(C, packed)]: fields are read by copy, never by reference
        self.custom_def = custom_def  # definition text emitted verbatim instead of the generic one
        for f in fields:
            f.packed = packed
        pos = 0
        for f in fields:
            if f.skip:
                f.start = pos
                continue
            pos += f.pre
            f.start = pos
            pos += f.bits
            pos += f.post
        self.bits = pos
        if total_bits is not None:
            assert total_bits == pos, (ident, total_bits, pos)
        self.nbytes = (pos + 7) // 8
        self.spell = spell
        self.all_vis = all(f.vis for f in fields)

    def macro_ok(self):
        """the alignment rules parse_struct enforces"""
        for f in self.fields:
            if f.skip:
                continue
            b0, b1 = f.start // 8, (f.start + f.bits + 7) // 8
            nb = b1 - b0
            if nb > 1 and (f.start % 8 or f.bits % 8):
                return False
            if f.bits < 8 and nb > 1:
                return False
            if f.bits == 0:
                return False
        return True

    def has_array(self, types):
        for f in self.fields:
            if f.kind in ("u8arr", "arr"):
                return True
            if f.kind == "struct" and types[f.ref].has_array(types):
                return True
        return False

    def has_fallible(self, types):
        for f in self.fields:
            if f.skip:
                continue
            if f.kind == "enum" and enum_fallible_in(types[f.ref], f.bits):
                return True
            if f.kind == "struct" and types[f.ref].has_fallible(types):
                return True
            if f.kind == "opaque" and OPAQUE[f.ref]["fallible"]:
                return True
        return False


def enum_fallible_in(e, bits):
    """can a field of `bits` bits holding enum e contain an undefined value?"""
    w = min(bits, 8 * e.size)
    if e.catch_all or e.default:
        return False
    if w >= 20:
        return True
    pats = {e.pat(d) for v in e.named() for d in [v["rdisc"]] + v["alts"]}
    return any(r not in pats for r in range(1 << w))


# hand-written wire impls of /repo used as field types; reference functions live in c19.rs
OPAQUE = {
    "Flags": dict(path="crate::eeprom::types::Flags", fallible=True, rw=False, bits=8),
    "CoeDetails": dict(path="crate::eeprom::types::CoeDetails", fallible=True, rw=False, bits=8),
    "MailboxProtocols": dict(path="crate::eeprom::types::MailboxProtocols", fallible=True, rw=False, bits=16),
    "SyncManagerEnable": dict(path="crate::eeprom::types::SyncManagerEnable", fallible=True, rw=False, bits=8),
    "PortStatuses": dict(path="crate::eeprom::types::PortStatuses", fallible=False, rw=False, bits=16),
    "PduFlags": dict(path="crate::pdu_loop::VerifPduFlags", fallible=False, rw=True, bits=16),
}


def classify(f, types):
    """fill f.kind / f.ref / f.n from the type string"""
    t = f.ty.strip()
    if f.kind:
        return
    m = re.match(r"\[\s*(\w+)\s*;\s*(\d+)\s*\]$", t)
    if m:
        f.n = int(m.group(2))
        f.ref = m.group(1)
        f.kind = "u8arr" if m.group(1) == "u8" else "arr"
        assert m.group(1) in PRIM
        return
    base = t.split("::")[-1]
    if t in PRIM:
        f.kind = "sint" if PRIM[t][1] else "uint"
    elif t in FLOAT:
        f.kind = "float"
    elif t == "bool":
        f.kind = "bool"
    elif base in types:
        f.ref = base
        f.kind = "enum" if isinstance(types[base], Enum) else "struct"
    elif base in OPAQUE:
        f.ref = base
        f.kind = "opaque"
    else:
        raise KeyError("unknown field type %s" % t)


# =================================================================================================
# emission
class Out:
    def __init__(self):
        self.lines = []

    def w(self, s=""):
        if s.startswith("pub fn ") or s.startswith("pub(crate) fn "):
            self.lines.append("#[allow(trivial_numeric_casts, trivial_casts)]")
        self.lines.append(s)

    def text(self):
        return "\n".join(self.lines) + "\n"


def hexlit(v):
    return "0x%x" % v


def derive_name(d):
    return {"RW": "EtherCrabWireReadWrite", "R": "EtherCrabWireRead", "W": "EtherCrabWireWrite"}[d]


def emit_enum_def(o, e):
    extra = ", Default" if e.default else ""
    o.w("#[derive(Debug, Copy, Clone, PartialEq%s, ethercrab_wire::%s)]" % (extra, derive_name(e.derive)))
    if e.wire_bits:
        o.w("#[wire(bits = %d)]" % e.wire_bits)
    o.w("#[repr(%s)]" % e.repr)
    o.w("pub enum %s {" % e.ident)
    for v in e.variants:
        if v["default"]:
            o.w("    #[default]")
        if v["alts"]:
            o.w("    #[wire(alternatives = [%s])]" % ", ".join(str(a) for a in v["alts"]))
        if v["catch_all"]:
            o.w("    #[wire(catch_all)]")
            o.w("    %s(%s)," % (v["name"], e.repr))
        elif v["implicit"]:
            o.w("    %s," % v["name"])
        else:
            o.w("    %s = %d," % (v["name"], v["disc"]))
    o.w("}")


def emit_enum_ref(o, e):
    i, p = e.ident, e.path
    u = "u%d" % (8 * e.size)
    named = e.named()
    # symbolic value
    o.w("pub(crate) fn any_%s() -> %s {" % (i, p))
    o.w("    let k: u8 = kani::any();")
    o.w("    match k {")
    last = e.catch_all or named[-1]
    n = 0
    for v in named:
        if v is last:
            continue
        o.w("        %d => %s::%s," % (n, p, v["name"]))
        n += 1
    if e.catch_all:
        o.w("        _ => %s::%s(kani::any())," % (p, e.catch_all["name"]))
    else:
        o.w("        _ => %s::%s," % (p, last["name"]))
    o.w("    }")
    o.w("}")
    # variant index
    o.w("pub(crate) fn vidx_%s(v: &%s) -> u32 {" % (i, p))
    o.w("    match v {")
    for n, v in enumerate(e.variants):
        o.w("        %s::%s%s => %d," % (p, v["name"], "(_)" if v["catch_all"] else "", n))
    o.w("    }")
    o.w("}")
    # discriminant bit pattern as declared in the source (Rust's rule)
    o.w("pub(crate) fn disc_%s(v: &%s) -> u64 {" % (i, p))
    o.w("    match v {")
    for v in e.variants:
        if v["catch_all"]:
            o.w("        %s::%s(x) => (*x as %s) as u64," % (p, v["name"], u))
        else:
            o.w("        %s::%s => %s," % (p, v["name"], hexlit(e.pat(v["rdisc"]))))
    o.w("    }")
    o.w("}")
    # reference decoding of a raw repr-width bit pattern
    o.w("pub(crate) fn dec_%s(raw: u64) -> Option<%s> {" % (i, p))
    o.w("    match raw {")
    seen = set()
    for v in named:
        for d in [v["rdisc"]] + v["alts"]:
            pt = e.pat(d)
            if pt in seen:
                continue
            seen.add(pt)
            o.w("        %s => Some(%s::%s)," % (hexlit(pt), p, v["name"]))
    if e.catch_all:
        o.w("        other => Some(%s::%s(other as %s as %s))," % (p, e.catch_all["name"], u, e.repr))
    elif e.default:
        o.w("        _ => Some(%s::%s)," % (p, e.default["name"]))
    else:
        o.w("        _ => None,")
    o.w("    }")
    o.w("}")
    o.w("pub(crate) fn eq_%s(a: &%s, b: &%s) -> bool {" % (i, p, p))
    o.w("    vidx_%s(a) == vidx_%s(b) && disc_%s(a) == disc_%s(b)" % (i, i, i, i))
    o.w("}")
    # value survives a field of `len` bits
    o.w("pub(crate) fn fits_%s(v: &%s, len: usize) -> bool {" % (i, p))
    o.w("    let d = disc_%s(v);" % i)
    o.w("    d <= mask(len) && match dec_%s(d) { Some(e) => eq_%s(&e, v), None => false }" % (i, i))
    o.w("}")


def emit_enum_check(o, e):
    i, p, S = e.ident, e.path, e.size
    o.w("pub(crate) fn check_%s() {" % i)
    o.w("    const S: usize = %d;" % S)
    if "R" in e.derive:
        o.w("    let buf: [u8; S + 1] = kani::any();")
        o.w("    let m: usize = kani::any();")
        o.w("    kani::assume(m <= S + 1);")
        o.w("    let r = <%s as EtherCrabWireRead>::unpack_from_slice(&buf[..m]);" % p)
        o.w("    kani::cover!(m >= S && r.is_ok());")
        o.w("    kani::cover!(m < S);")
        if e.fallible:
            o.w("    kani::cover!(m >= S && r.is_err());")
        o.w("    match r {")
        o.w("        Ok(u) => {")
        o.w("            assert!(m >= S);")
        o.w("            match dec_%s(ref_get(&buf, 0, 8 * S)) { Some(x) => assert!(eq_%s(&x, &u)), None => assert!(false) }" % (i, i))
        o.w("        }")
        o.w("        Err(e) => {")
        o.w("            if m < S { assert!(e == WireError::ReadBufferTooShort); }")
        o.w("            else { assert!(e == WireError::InvalidValue); assert!(dec_%s(ref_get(&buf, 0, 8 * S)).is_none()); }" % i)
        o.w("        }")
        o.w("    }")
    if "W" in e.derive:
        o.w("    let v = any_%s();" % i)
        o.w("    let mut exp = [0u8; S];")
        o.w("    ref_put(&mut exp, 0, 8 * S, disc_%s(&v));" % i)
        o.w("    let out = v.pack();")
        o.w("    assert!(same(&out, &exp));")
        o.w("    assert!(v.packed_len() == S);")
        o.w("    let mut dst: [u8; S + 1] = kani::any();")
        o.w("    let last = dst[S];")
        o.w("    let n: usize = kani::any();")
        o.w("    kani::assume(n <= S + 1);")
        o.w("    let w = v.pack_to_slice(&mut dst[..n]);")
        o.w("    kani::cover!(n < S);")
        o.w("    kani::cover!(n >= S);")
        o.w("    match w {")
        o.w("        Ok(s) => { assert!(n >= S); assert!(same(s, &exp)); }")
        o.w("        Err(e) => { assert!(n < S); assert!(e == WireError::WriteBufferTooShort); }")
        o.w("    }")
        o.w("    assert!(dst[S] == last);")
        if "R" in e.derive:
            o.w("    if fits_%s(&v, 8 * S) {" % i)
            o.w("        match <%s as EtherCrabWireRead>::unpack_from_slice(&out) { Ok(u) => assert!(eq_%s(&u, &v)), Err(_) => assert!(false) }" % (p, i))
            o.w("    }")
    o.w("}")


def attr_of(f):
    parts = []
    if f.skip:
        return "#[wire(skip)]"
    sp = f.spell
    if f.pre:
        if sp.get("pre") == "bytes":
            assert f.pre % 8 == 0
            parts.append("pre_skip_bytes = %d" % (f.pre // 8))
        else:
            parts.append("pre_skip = %d" % f.pre)
    w = sp.get("w", "bits")
    if w == "bytes":
        assert f.bits % 8 == 0
        parts.append("bytes = %d" % (f.bits // 8))
    elif w == "bits":
        parts.append("bits = %d" % f.bits)
    if f.post:
        if sp.get("post") == "bytes":
            assert f.post % 8 == 0
            parts.append("post_skip_bytes = %d" % (f.post // 8))
        else:
            parts.append("post_skip = %d" % f.post)
    if not parts:
        return None
    return "#[wire(%s)]" % ", ".join(parts)


def emit_struct_def(o, s):
    if s.custom_def:
        for l in s.custom_def:
            o.w(l)
        return
    o.w("#[derive(Debug, Copy, Clone, ethercrab_wire::%s)]" % derive_name(s.derive))
    if s.packed:
        o.w("#[repr(C, packed)]")
    if s.spell == "bytes" or (s.spell == "auto" and s.bits % 8 == 0 and (s.bits // 8) % 2 == 0):
        o.w("#[wire(bytes = %d)]" % (s.bits // 8))
    else:
        o.w("#[wire(bits = %d)]" % s.bits)
    o.w("pub struct %s {" % s.ident)
    for f in s.fields:
        a = attr_of(f)
        if a:
            o.w("    " + a)
        o.w("    pub %s: %s," % (f.name, f.ty))
    o.w("}")


def rd(f, v="v"):
    """expression reading field f of value `v`"""
    if getattr(f, "packed", False):
        return "{ %s.%s }" % (v, f.name)
    return "%s.%s" % (v, f.name) if f.vis else "%s.verif_%s()" % (v, f.name)


def emit_struct_ref(o, s, types):
    i, p = s.ident, s.path
    # ---- symbolic value
    if "W" in s.derive:
        o.w("pub(crate) fn any_%s() -> %s {" % (i, p))
        args = []
        for f in s.fields:
            if f.kind in ("enum", "struct"):
                e = "any_%s()" % f.ref
            elif f.kind == "opaque":
                e = "opq_any_%s()" % f.ref
            else:
                e = "kani::any()"
            args.append((f.name, e))
        if s.all_vis:
            o.w("    %s { %s }" % (p, ", ".join("%s: %s" % a for a in args)))
        else:
            o.w("    %s::verif_new(%s)" % (p, ", ".join(a[1] for a in args)))
        o.w("}")
    # ---- expected wire image
    if "W" in s.derive:
        o.w("pub(crate) fn exp_%s(v: &%s, out: &mut [u8], base: usize) {" % (i, p))
        for f in s.fields:
            if f.skip:
                continue
            st = "base + %d" % f.start
            x = rd(f)
            if f.kind == "uint":
                o.w("    ref_put(out, %s, %d, %s as u64);" % (st, f.bits, x))
            elif f.kind == "sint":
                tb = PRIM[f.ty][0]
                o.w("    ref_put(out, %s, %d, (%s as u%d) as u64);" % (st, min(f.bits, tb), x, tb))
            elif f.kind == "float":
                o.w("    ref_put(out, %s, %d, %s.to_bits() as u64);" % (st, min(f.bits, FLOAT[f.ty]), x))
            elif f.kind == "bool":
                o.w("    ref_put(out, %s, %d, %s as u64);" % (st, f.bits, x))
            elif f.kind == "enum":
                o.w("    ref_put(out, %s, %d, disc_%s(&%s));" % (st, min(f.bits, 8 * types[f.ref].size), f.ref, x))
            elif f.kind == "struct":
                o.w("    exp_%s(&%s, out, %s);" % (f.ref, x, st))
            elif f.kind == "opaque":
                o.w("    ref_put(out, %s, %d, opq_exp_%s(&%s));" % (st, min(f.bits, OPAQUE[f.ref]["bits"]), f.ref, x))
            elif f.kind == "u8arr":
                o.w("    { let a = %s; let mut k = 0; while k < %d { ref_put(out, %s + 8 * k, 8, a[k] as u64); k += 1; } }" % (x, f.n, st))
            else:
                raise ValueError(f.kind)
        o.w("}")
        # ---- fits
        o.w("pub(crate) fn fits_%s(v: &%s) -> bool {" % (i, p))
        o.w("    let mut ok = true;")
        for f in s.fields:
            if f.skip:
                continue
            x = rd(f)
            if f.kind == "uint" and f.bits < PRIM[f.ty][0]:
                o.w("    ok &= (%s as u64) <= mask(%d);" % (x, f.bits))
            elif f.kind == "sint" and f.bits < PRIM[f.ty][0]:
                # two's complement value range of a `bits` wide signed field
                o.w("    ok &= (%s as i64) >= -(1i64 << %d) && (%s as i64) < (1i64 << %d);" % (x, f.bits - 1, x, f.bits - 1))
            elif f.kind == "enum":
                o.w("    ok &= fits_%s(&%s, %d);" % (f.ref, x, min(f.bits, 8 * types[f.ref].size)))
            elif f.kind == "struct":
                o.w("    ok &= fits_%s(&%s);" % (f.ref, x))
            elif f.kind == "opaque":
                o.w("    ok &= opq_fits_%s(&%s);" % (f.ref, x))
        o.w("    ok")
        o.w("}")
    # ---- leaf-wise equality (skipped fields are not on the wire)
    o.w("pub(crate) fn eq_%s(a: &%s, b: &%s) -> bool {" % (i, p, p))
    o.w("    let mut ok = true;")
    for f in s.fields:
        if f.skip:
            continue
        xa, xb = rd(f, "a"), rd(f, "b")
        if f.kind in ("uint", "sint", "bool"):
            o.w("    ok &= %s == %s;" % (xa, xb))
        elif f.kind == "float":
            o.w("    ok &= %s.to_bits() == %s.to_bits();" % (xa, xb))
        elif f.kind in ("enum", "struct"):
            o.w("    ok &= eq_%s(&%s, &%s);" % (f.ref, xa, xb))
        elif f.kind == "opaque":
            o.w("    ok &= opq_eq_%s(&%s, &%s);" % (f.ref, xa, xb))
        elif f.kind in ("u8arr", "arr"):
            o.w("    { let (x, y) = (%s, %s); let mut k = 0; while k < %d { ok &= x[k] == y[k]; k += 1; } }" % (xa, xb, f.n))
    o.w("    ok")
    o.w("}")
    if "R" in s.derive:
        # ---- value equals the reference decoding of buf
        o.w("pub(crate) fn chk_%s(v: &%s, buf: &[u8], base: usize) -> bool {" % (i, p))
        o.w("    let mut ok = true;")
        for f in s.fields:
            x = rd(f)
            if f.skip:
                o.w("    ok &= %s == Default::default();" % x)
                continue
            st = "base + %d" % f.start
            if f.kind in ("uint", "sint"):
                tb = PRIM[f.ty][0]
                o.w("    ok &= (%s as u%d) as u64 == ref_get(buf, %s, %d);" % (x, tb, st, min(f.bits, tb)))
            elif f.kind == "float":
                o.w("    ok &= %s.to_bits() as u64 == ref_get(buf, %s, %d);" % (x, st, min(f.bits, FLOAT[f.ty])))
            elif f.kind == "bool":
                o.w("    ok &= %s == (ref_get(buf, %s, %d) != 0);" % (x, st, min(f.bits, 8)))
            elif f.kind == "enum":
                o.w("    ok &= match dec_%s(ref_get(buf, %s, %d)) { Some(e) => eq_%s(&e, &%s), None => false };"
                    % (f.ref, st, min(f.bits, 8 * types[f.ref].size), f.ref, x))
            elif f.kind == "struct":
                o.w("    ok &= chk_%s(&%s, buf, %s);" % (f.ref, x, st))
            elif f.kind == "opaque":
                o.w("    ok &= opq_chk_%s(&%s, ref_get(buf, %s, %d));" % (f.ref, x, st, min(f.bits, OPAQUE[f.ref]["bits"])))
            elif f.kind == "u8arr":
                o.w("    { let a = &%s; let mut k = 0; while k < %d { ok &= a[k] as u64 == ref_get(buf, %s + 8 * k, 8); k += 1; } }" % (x, f.n, st))
            elif f.kind == "arr":
                tb = PRIM[f.ref][0]
                o.w("    { let a = &%s; let mut k = 0; while k < %d { ok &= (a[k] as u%d) as u64 == ref_get(buf, %s + %d * k, %d); k += 1; } }"
                    % (x, f.n, tb, st, tb, tb))
        o.w("    ok")
        o.w("}")
        o.w("pub(crate) fn valid_%s(buf: &[u8], base: usize) -> bool {" % i)
        o.w("    let mut ok = true;")
        for f in s.fields:
            if f.skip:
                continue
            st = "base + %d" % f.start
            if f.kind == "enum" and enum_fallible_in(types[f.ref], f.bits):
                o.w("    ok &= dec_%s(ref_get(buf, %s, %d)).is_some();" % (f.ref, st, min(f.bits, 8 * types[f.ref].size)))
            elif f.kind == "struct":
                o.w("    ok &= valid_%s(buf, %s);" % (f.ref, st))
            elif f.kind == "opaque" and OPAQUE[f.ref]["fallible"]:
                o.w("    ok &= opq_valid_%s(ref_get(buf, %s, %d));" % (f.ref, st, min(f.bits, OPAQUE[f.ref]["bits"])))
        o.w("    ok")
        o.w("}")


def emit_struct_check(o, s, types):
    i, p, N = s.ident, s.path, s.nbytes
    fallible = s.has_fallible(types)
    o.w("pub(crate) fn check_%s() {" % i)
    o.w("    const N: usize = %d;" % N)
    o.w("    assert!(<%s as EtherCrabWireSized>::PACKED_LEN == N);" % p)
    if "W" in s.derive:
        o.w("    let v = any_%s();" % i)
        o.w("    let mut exp = [0u8; N];")
        o.w("    exp_%s(&v, &mut exp, 0);" % i)
        o.w("    let out = v.pack();")
        o.w("    assert!(same(&out, &exp));")
        o.w("    assert!(v.packed_len() == N);")
        o.w("    let mut dst: [u8; N + 2] = kani::any();")
        o.w("    let (t0, t1) = (dst[N], dst[N + 1]);")
        o.w("    let n: usize = kani::any();")
        o.w("    kani::assume(n <= N + 2);")
        o.w("    let w = v.pack_to_slice(&mut dst[..n]);")
        o.w("    kani::cover!(n < N);")
        o.w("    kani::cover!(n >= N);")
        o.w("    match w {")
        o.w("        Ok(sl) => { assert!(n >= N); assert!(same(sl, &exp)); }")
        o.w("        Err(e) => { assert!(n < N); assert!(e == WireError::WriteBufferTooShort); }")
        o.w("    }")
        o.w("    assert!(dst[N] == t0 && dst[N + 1] == t1);")
    if "R" in s.derive:
        o.w("    let buf: [u8; N + 2] = kani::any();")
        arrays = s.has_array(types)
        if arrays:
            # [T; N]::unpack_from_slice on a slice of symbolic length is ~10x more expensive for CBMC than
            # on a concrete length: enumerate every length 0..=N+2 (same domain) with symbolic contents.
            o.w("    let mut m: usize = 0;")
            o.w("    while m <= N + 2 {")
            ind = "    "
        else:
            o.w("    let m: usize = kani::any();")
            o.w("    kani::assume(m <= N + 2);")
            ind = ""
        o.w(ind + "    let r = <%s as EtherCrabWireRead>::unpack_from_slice(&buf[..m]);" % p)
        o.w(ind + "    kani::cover!(m >= N && r.is_ok());")
        o.w(ind + "    kani::cover!(m < N);")
        if fallible:
            o.w(ind + "    kani::cover!(m >= N && r.is_err());")
        o.w(ind + "    match r {")
        o.w(ind + "        Ok(u) => { assert!(m >= N); assert!(valid_%s(&buf, 0)); assert!(chk_%s(&u, &buf, 0)); }" % (i, i))
        o.w(ind + "        Err(e) => {")
        o.w(ind + "            if m < N { assert!(e == WireError::ReadBufferTooShort); }")
        o.w(ind + "            else { assert!(e == WireError::InvalidValue); assert!(!valid_%s(&buf, 0)); }" % i)
        o.w(ind + "        }")
        o.w(ind + "    }")
        if arrays:
            o.w("        m += 1;")
            o.w("    }")
    if s.derive == "RW":
        o.w("    if fits_%s(&v) {" % i)
        o.w("        match <%s as EtherCrabWireRead>::unpack_from_slice(&out) { Ok(u) => assert!(eq_%s(&u, &v)), Err(_) => assert!(false) }" % (p, i))
        o.w("    }")
    o.w("}")


# =================================================================================================
# the generated family
class Family:
    def __init__(self):
        self.types = {}      # ident -> Enum/Struct (definition order)
        self.groups = []     # (harness, tier, [idents], description, expect_fail)
        self.counter = 0

    def add(self, t):
        assert t.ident not in self.types, t.ident
        if isinstance(t, Struct):
            for f in t.fields:
                classify(f, self.types)
            if t.defined:
                assert t.macro_ok(), t.ident
        self.types[t.ident] = t
        return t.ident

    def name(self, prefix):
        self.counter += 1
        return "%s%d" % (prefix, self.counter)


def f_u8(name, bits, **kw):
    return Field(name, "u8", bits, **kw)


def build_common_enums(fam):
    """enums used as field types by the struct families; each one also gets a standalone check"""
    E = []
    E.append(fam.add(Enum("EPlain8", "u8", [dict(name="A", disc=0), dict(name="B", disc=1), dict(name="C", disc=2), dict(name="D", disc=3)])))
    E.append(fam.add(Enum("ECatch8", "u8", [dict(name="A", disc=0), dict(name="B", disc=1), dict(name="C", disc=5), dict(name="Other", catch_all=True)])))
    E.append(fam.add(Enum("EDefault8", "u8", [dict(name="A", disc=0, default=True), dict(name="B", disc=1), dict(name="C", disc=2)])))
    E.append(fam.add(Enum("EAlt8", "u8", [dict(name="A", disc=0), dict(name="B", disc=1, alts=[2, 3, 6]), dict(name="C", disc=4)])))
    # catch-all combined with alternatives (pack must still emit the declared discriminant, not an alternative)
    E.append(fam.add(Enum("EAltCatch8", "u8", [dict(name="A", disc=0), dict(name="B", disc=2, alts=[3, 6]), dict(name="C", disc=4), dict(name="Other", catch_all=True)])))
    E.append(fam.add(Enum("EAltCatch16", "u16", [dict(name="A", disc=1, alts=[0x0102, 7]), dict(name="B", disc=0x1234), dict(name="Other", catch_all=True)])))
    E.append(fam.add(Enum("EBit1", "u8", [dict(name="Off", disc=0), dict(name="On", disc=1)])))
    E.append(fam.add(Enum("ESparse8", "u8", [dict(name="A", disc=1), dict(name="B", disc=0x80), dict(name="C", disc=0xff)], wire_bits=8)))
    E.append(fam.add(Enum("EPlain16", "u16", [dict(name="A", disc=0), dict(name="B", disc=0x0102), dict(name="C", disc=0xffff)])))
    E.append(fam.add(Enum("ECatch16", "u16", [dict(name="A", disc=0), dict(name="B", disc=0x1234), dict(name="Other", catch_all=True)])))
    E.append(fam.add(Enum("ECatch32", "u32", [dict(name="A", disc=0x05030000), dict(name="B", disc=1), dict(name="Other", catch_all=True)])))
    E.append(fam.add(Enum("EPlain64", "u64", [dict(name="A", disc=0x0102030405060708), dict(name="B", disc=2)])))
    E.append(fam.add(Enum("ESigned8", "i8", [dict(name="A", disc=-10), dict(name="B", disc=-1), dict(name="C", disc=7)])))
    E.append(fam.add(Enum("ESigned16", "i16", [dict(name="A", disc=-32768), dict(name="B", disc=-2), dict(name="C", disc=300)])))
    E.append(fam.add(Enum("ESigned32", "i32", [dict(name="A", disc=0x00bbccdd), dict(name="B", disc=-2147483648), dict(name="C", disc=-1073741824)])))
    E.append(fam.add(Enum("ESignedCatch8", "i8", [dict(name="A", disc=-3), dict(name="B", disc=4), dict(name="Other", catch_all=True)])))
    E.append(fam.add(Enum("EDefCatch16", "u16", [dict(name="A", disc=0), dict(name="B", disc=1, default=True), dict(name="Other", catch_all=True)])))
    E.append(fam.add(Enum("EAltDef16", "u16", [dict(name="Nop", disc=0, default=True), dict(name="Dev", disc=1, alts=[2, 3, 4, 5, 6, 7, 8, 9]), dict(name="Strings", disc=10), dict(name="End", disc=0xffff)])))
    # implicit discriminants that continue an explicit one (Rust: previous + 1)
    E.append(fam.add(Enum("EImplicitTail", "i8", [dict(name="A", disc=-10), dict(name="B"), dict(name="C")])))
    E.append(fam.add(Enum("EReadOnly8", "u8", [dict(name="A", disc=1), dict(name="B", disc=2)], derive="R")))
    E.append(fam.add(Enum("EWriteOnly8", "u8", [dict(name="A", disc=1), dict(name="B", disc=0xaa)], derive="W")))
    E.append(fam.add(Enum("EWriteCatch16", "u16", [dict(name="A", disc=1), dict(name="Other", catch_all=True)], derive="W")))
    return E


def spell_for(rng, f, allow_infer=True):
    sp = {}
    if f.bits % 8 == 0 and rng.random() < 0.5:
        sp["w"] = "bytes"
    else:
        sp["w"] = "bits"
    if allow_infer and f.ty in PRIM and PRIM[f.ty][0] == f.bits and rng.random() < 0.25:
        sp["w"] = None
    if allow_infer and f.ty == "f64" and rng.random() < 0.25:
        sp["w"] = None
    for k, v in (("pre", f.pre), ("post", f.post)):
        sp[k] = "bytes" if v and v % 8 == 0 and rng.random() < 0.5 else "bits"
    f.spell = sp
    return f


def fam_A(fam, tier):
    """one bit field at (byte b, offset o, width w) of a 3 byte struct between filler fields"""
    out_q, out_t = [], []
    k = 0
    for o in range(8):
        for w in range(1, 9 - o):
            for b in (0, 1):
                for ty in ("u8", "enum", "bool"):
                    quick = ty == "u8" and b == (k % 2)
                    fields = []
                    if b == 1:
                        fields.append(Field("p0", "u8", 8))
                    if o:
                        fields.append(Field("lo", "u8", o))
                    if ty == "u8":
                        fields.append(Field("x", "u8", w))
                    elif ty == "bool":
                        fields.append(Field("x", "bool", w))
                    else:
                        fields.append(Field("x", "ECatch8", w))
                    if 8 - o - w:
                        fields.append(Field("hi", "u8", 8 - o - w))
                    if b == 0:
                        fields.append(Field("p1", "u8", 8))
                    fields.append(Field("p2", "u8", 8))
                    nm = "A%s_b%do%dw%d" % ({"u8": "u", "enum": "e", "bool": "b"}[ty], b, o, w)
                    fam.add(Struct(nm, fields, total_bits=24))
                    (out_q if quick else out_t).append(nm)
            k += 1
    return out_q, out_t


def compositions(n, maxparts):
    def rec(rem, parts):
        if rem == 0:
            yield list(parts)
            return
        if len(parts) == maxparts:
            return
        for p in range(1, rem + 1):
            yield from rec(rem - p, parts + [p])
    return list(rec(n, []))


def fam_B(fam, tier):
    """tilings of one byte; part kinds rotate over u8 / bool / enum / skip"""
    out_q, out_t = [], []
    kinds = ["u8", "bool", "enum", "u8", "skip", "u8", "nested"]
    rot = 0
    for ci, comp in enumerate(compositions(8, 4)):
        for variant in (0, 1):
            quick = variant == 0 and len(comp) <= 3
            fields, pend = [], 0
            for pi, w in enumerate(comp):
                kind = kinds[(rot + pi * (variant + 1)) % len(kinds)] if variant == 0 else ("u8" if (pi + ci) % 2 else "skip")
                if kind == "nested" and w != 4:
                    kind = "u8"
                if kind == "enum" and w > 8:
                    kind = "u8"
                if kind == "skip":
                    if fields and fields[-1].post == 0 and (ci + pi) % 2 == 0:
                        fields[-1].post = w
                    else:
                        pend += w
                    continue
                ty = {"u8": "u8", "bool": "bool", "enum": "ECatch8" if w > 1 else "EBit1", "nested": "Nib"}[kind]
                fields.append(Field("f%d" % pi, ty, w, pre=pend))
                pend = 0
            if pend:
                if not fields:
                    continue
                fields[-1].post += pend
            rot += 1
            if not fields:
                continue
            # half of them are followed by a second byte so that the tiling is not at the end
            if ci % 2:
                fields.append(Field("tail", "u8", 8))
            nm = "B%d_%s" % (variant, "".join(str(c) for c in comp))
            fam.add(Struct(nm, fields))
            (out_q if quick else out_t).append(nm)
    return out_q, out_t


def fam_C(fam, tier):
    """multi-byte primitives at byte offsets 0..3 with skips"""
    out_q, out_t = [], []
    rng = random.Random(0xC19C)
    combos = [(0, 0), (1, 0), (0, 2), (2, 1)]
    for t, ty in enumerate(("u8", "u16", "u32", "u64", "i8", "i16", "i32", "i64")):
        for off in range(4):
            for ci, (pre, post) in enumerate(combos):
                quick = ci == (t + off) % 4 and off % 2 == t % 2
                fields = []
                for j in range(off):
                    fields.append(Field("p%d" % j, "u8", 8))
                f = Field("x", ty, PRIM[ty][0], pre=8 * pre, post=8 * post)
                spell_for(rng, f)
                fields.append(f)
                # a sub-byte tail proves that the skip really advanced the cursor
                fields.append(Field("t0", "u8", 3))
                fields.append(Field("t1", "bool", 1, post=4))
                nm = "C_%s_o%d_s%d%d" % (ty, off, pre, post)
                fam.add(Struct(nm, fields))
                (out_q if quick else out_t).append(nm)
    return out_q, out_t


def fam_D(fam, tier):
    """special shapes"""
    out = []

    def S(*a, **kw):
        out.append(fam.add(Struct(*a, **kw)))

    S("D_bit1", [Field("foo", "u8", 1)])                                   # 1 bit struct
    S("D_bits3", [Field("a", "bool", 1), Field("b", "bool", 1), Field("c", "bool", 1)])
    S("D_mid", [Field("foo", "u8", 3, pre=2, post=3)])                      # doc example
    S("D_bits13", [Field("a", "u8", 8), Field("b", "u8", 5)])               # total not a byte multiple
    S("D_boolw", [Field("a", "bool", 2), Field("b", "bool", 3), Field("c", "bool", 3), Field("d", "bool", 8)])
    S("D_enums", [Field("a", "EPlain8", 2), Field("b", "EDefault8", 2), Field("c", "EAlt8", 3), Field("d", "EBit1", 1),
                  Field("e", "EPlain16", 16, spell={"w": "bytes"}), Field("f", "ECatch16", 16), Field("g", "ESigned8", 8)])
    S("D_enums2", [Field("a", "ECatch32", 32, pre=8, spell={"w": "bytes", "pre": "bytes"}), Field("b", "ESigned16", 16),
                   Field("c", "EAltDef16", 16, post=8), Field("d", "ESparse8", 8)])
    S("D_enum_wide", [Field("a", "EPlain8", 16, spell={"w": "bytes"}), Field("b", "ECatch8", 32), Field("c", "u8", 8)])  # field wider than repr
    S("D_prim_wide", [Field("a", "u16", 32), Field("b", "u8", 8), Field("c", "u32", 64), Field("d", "i8", 8)])        # field wider than type
    S("D_nest", [Field("a", "u8", 4), Field("n", "Nib", 4), Field("m", "D_mid", 8), Field("w", "Word16", 16, spell={"w": "bytes"}),
                 Field("z", "u16", 16)])
    S("D_nest2", [Field("h", "D_nest", 48, spell={"w": "bytes"}), Field("e", "D_enums", 48, pre=16, post=8), Field("k", "u8", 8)])
    # arrays decode through chunks_exact().take().map().collect::<heapless::Vec>(): expensive for CBMC, kept small
    S("D_arr", [Field("a", "[u8; 4]", 32, spell={"w": "bytes"}), Field("b", "u8", 8), Field("c", "[u8; 1]", 8), Field("d", "[u8; 6]", 48, pre=8)])
    S("D_arr_ro", [Field("a", "[u16; 3]", 48), Field("b", "[u8; 2]", 16), Field("c", "[i32; 2]", 64, post=8), Field("d", "u8", 8)], derive="R")
    S("D_float", [Field("a", "f32", 32), Field("b", "f64", 64, spell={"w": None}), Field("c", "u8", 8), Field("d", "f64", 64, spell={"w": "bytes"})])
    S("D_skipfield", [Field("a", "u16", 16), Field("ign", "u16", skip=True), Field("b", "u8", 8, post=8)], derive="R")
    S("D_ro", [Field("a", "u8", 3), Field("b", "EPlain8", 2), Field("c", "bool", 1, post=2), Field("d", "EReadOnly8", 8), Field("e", "i16", 16)], derive="R")
    S("D_wo", [Field("a", "u8", 3), Field("b", "EWriteOnly8", 8, pre=5), Field("c", "EWriteCatch16", 16), Field("d", "i32", 32, post=8)], derive="W")
    S("D_infer", [Field("a", "u8", 8, spell={"w": None}), Field("b", "u16", 16, spell={"w": None}), Field("c", "u32", 32, spell={"w": None}),
                  Field("d", "u64", 64, spell={"w": None}), Field("e", "i8", 8, spell={"w": None})])
    S("D_infer2", [Field("a", "i16", 16, spell={"w": None}), Field("b", "i32", 32, spell={"w": None}), Field("c", "i64", 64, spell={"w": None}),
                   Field("d", "f64", 64, spell={"w": None})])
    # #[repr(packed)] takes the read_unaligned path of generate_struct_write
    S("D_packed", [Field("a", "u8", 8), Field("b", "u32", 32), Field("c", "u8", 3), Field("d", "bool", 1), Field("e", "ECatch8", 4),
                   Field("f", "u16", 16, pre=8), Field("g", "Word16", 16), Field("h", "i64", 64)], packed=True)
    S("D_packed_ro", [Field("a", "u16", 16), Field("b", "u8", 5, post=3), Field("c", "EPlain8", 8), Field("d", "u32", 32)], packed=True, derive="R")
    # generic structs (impl_generics / where clause pass-through)
    S("DGenU32", [Field("a", "i32", 32), Field("b", "u32", 32)], custom_def=[
        "#[derive(Debug, Copy, Clone, ethercrab_wire::EtherCrabWireReadWrite)]",
        "#[wire(bytes = 8)]",
        "pub struct DGen<T: ethercrab_wire::EtherCrabWireReadWrite> {",
        "    #[wire(bits = 32)]",
        "    pub a: i32,",
        "    #[wire(bits = 32)]",
        "    pub b: T,",
        "}",
        "pub type DGenU32 = DGen<u32>;"])
    S("DGenWhereE16", [Field("a", "u8", 3), Field("b", "u8", 5), Field("c", "ECatch16", 16), Field("d", "u8", 8)], custom_def=[
        "#[derive(Debug, Copy, Clone, ethercrab_wire::EtherCrabWireReadWrite)]",
        "#[wire(bits = 32)]",
        "pub struct DGenWhere<T>",
        "where",
        "    T: ethercrab_wire::EtherCrabWireReadWrite,",
        "{",
        "    #[wire(bits = 3)]",
        "    pub a: u8,",
        "    #[wire(bits = 5)]",
        "    pub b: u8,",
        "    #[wire(bytes = 2)]",
        "    pub c: T,",
        "    #[wire(bits = 8)]",
        "    pub d: u8,",
        "}",
        "pub type DGenWhereE16 = DGenWhere<ECatch16>;"])
    S("D_twelve", [Field("f%d" % k, "u8", w) for k, w in enumerate([1, 2, 3, 2, 4, 4, 8, 1, 1, 1, 5])] + [Field("f11", "u16", 16)])
    S("D_sixteen", [Field("a", "u64", 64), Field("b", "u32", 32), Field("c", "u16", 16), Field("d", "u8", 8), Field("e", "u8", 7, post=1)])
    return out


def fam_F(fam):
    """layouts the macro accepts but whose generated code does not meet the declared layout"""
    F = []
    # F-a: first variant without explicit discriminant: Rust says 0, the macro assumes 1
    fam.add(Enum("FImplicitFirst", "u8", [dict(name="A"), dict(name="B"), dict(name="C")]))
    F.append(("c19_gen_find_enum_implicit_first", ["FImplicitFirst"],
              "enum { A, B, C } with no explicit discriminant: parse_enum starts counting at 1 (discriminant_accum + 1 with accum = 0) "
              "but Rust assigns 0; pack(A) = [0] (as cast) yet unpack([0]) = Err(InvalidValue) and unpack([1]) = A"))
    # F-b: implicit discriminant after a variant with alternatives
    fam.add(Enum("FImplicitAfterAlt", "u8", [dict(name="A", disc=1, alts=[7, 9]), dict(name="B"), dict(name="C", disc=20)]))
    F.append(("c19_gen_find_enum_implicit_after_alt", ["FImplicitAfterAlt"],
              "A = 1 with alternatives [7, 9] followed by implicit B: Rust gives B = 2, parse_enum continues after the last alternative (B = 10); "
              "pack(B) = [2], unpack([2]) = Err(InvalidValue), unpack([10]) = B"))
    # F-c: f32 with inferred width is treated as 8 bytes wide
    fam.add(Struct("FInferF32", [Field("a", "f32", 32, spell={"w": None}), Field("b", "u8", 8)], custom_def=[
        "// declared the way the macro demands (9 bytes); the Rust types say 4 + 1",
        "#[derive(Debug, Copy, Clone, ethercrab_wire::EtherCrabWireReadWrite)]",
        "#[wire(bytes = 9)]",
        "pub struct FInferF32 {",
        "    pub a: f32,",
        "    #[wire(bits = 8)]",
        "    pub b: u8,",
        "}"]))
    F.append(("c19_gen_find_f32_inferred_width", ["FInferF32"],
              "parse_struct infers 8 bytes for an f32 field without width attribute (\"u64\" | \"i64\" | \"f32\" | \"f64\" => Some(8)): "
              "struct { a: f32, b: u8 } must be declared #[wire(bytes = 9)] to compile and b lands in byte 8, PACKED_LEN 9 instead of 5"))
    # F-d: sub-byte signed field is not sign-extended on unpack
    fam.add(Struct("FSignedNibble", [Field("a", "i8", 4), Field("b", "u8", 4)]))
    F.append(("c19_gen_find_signed_subbyte", ["FSignedNibble"],
              "#[wire(bits = 4)] a: i8: pack(-1) stores 0xF, unpack zero-extends the masked bits to 15: in-width negative values do not round-trip"))
    # F-e: multi-byte field narrower than its primitive type: pack panics (unreachable!()), unpack always Err
    fam.add(Struct("FNarrowU32", [Field("a", "u32", 24), Field("b", "u8", 8)]))
    F.append(("c19_gen_find_narrow_multibyte", ["FNarrowU32"],
              "#[wire(bits = 24)] a: u32 passes the macro's alignment rules; pack() calls u32::pack_to_slice_unchecked on a 3 byte slice -> unreachable!() panic; "
              "unpack_from_slice always returns Err(ReadBufferTooShort)"))
    fam.add(Struct("FNarrowU16", [Field("a", "u16", 4), Field("b", "u8", 4)]))
    F.append(("c19_gen_find_narrow_subbyte", ["FNarrowU16"],
              "#[wire(bits = 4)] a: u16 passes the macro; pack() calls u16::pack_to_slice_unchecked on a 1 byte buffer -> unreachable!() panic; "
              "unpack_from_slice always returns Err(ReadBufferTooShort) for any buffer"))
    return F


def rand_struct(rng, fam, ident, pool_nested):
    """random struct obeying the macro's alignment rules: 1..12 fields, <= 16 bytes"""
    nf = rng.randint(1, 12)
    fields, pos, pend = [], 0, 0
    enums8 = ["EPlain8", "ECatch8", "EDefault8", "EAlt8"]
    while len(fields) < nf and pos < 120:
        off = pos % 8
        room_bits = 128 - pos
        choices = []
        if off:
            choices += ["sub"] * 6 + ["skip_to_byte", "skip_bits"]
        else:
            choices += ["sub"] * 4 + ["u8", "u8", "prim", "prim", "prim", "enum8", "enumw", "nested", "arr", "bool8", "skip_bytes", "skip_bits", "float"]
        c = rng.choice(choices)
        if c == "sub":
            w = rng.randint(1, 8 - off) if off else rng.randint(1, 7)
            k = rng.choice(["u8", "u8", "u8", "bool", "enum", "nib"])
            if k == "nib" and w != 4:
                k = "u8"
            ty = {"u8": "u8", "bool": "bool", "enum": rng.choice(enums8) if w >= 3 else ("EBit1" if w == 1 else "ECatch8"), "nib": "Nib"}[k]
            if ty in ("EPlain8",) and w < 2:
                ty = "ECatch8"
            if ty in ("EAlt8",) and w < 3:
                ty = "ECatch8"
            f = Field("f%d" % len(fields), ty, w, pre=pend)
        elif c == "skip_to_byte":
            pend += 8 - off
            pos += 8 - off
            continue
        elif c == "skip_bits":
            w = rng.randint(1, 8 - off)
            pend += w
            pos += w
            continue
        elif c == "skip_bytes":
            w = 8 * rng.randint(1, 2)
            if w >= room_bits:
                continue
            pend += w
            pos += w
            continue
        elif c == "u8":
            f = Field("f%d" % len(fields), "u8", 8, pre=pend)
        elif c == "bool8":
            f = Field("f%d" % len(fields), "bool", 8, pre=pend)
        elif c == "prim":
            ty = rng.choice(["u16", "u32", "u64", "i8", "i16", "i32", "i64"])
            if PRIM[ty][0] > room_bits:
                continue
            f = Field("f%d" % len(fields), ty, PRIM[ty][0], pre=pend)
        elif c == "float":
            ty = rng.choice(["f32", "f64"])
            if FLOAT[ty] > room_bits:
                continue
            f = Field("f%d" % len(fields), ty, FLOAT[ty], pre=pend)
        elif c == "enum8":
            f = Field("f%d" % len(fields), rng.choice(enums8 + ["ESigned8", "ESparse8", "ESignedCatch8"]), 8, pre=pend)
        elif c == "enumw":
            ty, w = rng.choice([("EPlain16", 16), ("ECatch16", 16), ("ECatch32", 32), ("ESigned16", 16), ("EAltDef16", 16), ("ESigned32", 32), ("EDefCatch16", 16)])
            if w > room_bits:
                continue
            f = Field("f%d" % len(fields), ty, w, pre=pend)
        elif c == "nested":
            cand = [n for n in pool_nested if fam.types[n].bits % 8 == 0 and fam.types[n].bits <= room_bits]
            if not cand:
                continue
            ty = rng.choice(cand)
            f = Field("f%d" % len(fields), ty, fam.types[ty].bits, pre=pend)
        elif c == "arr":
            n = rng.randint(1, 5)
            if 8 * n > room_bits or any(x.ty.startswith("[") for x in fields):
                continue
            f = Field("f%d" % len(fields), "[u8; %d]" % n, 8 * n, pre=pend)
        # multi-byte fields need the pre-skip to keep byte alignment
        if (pos % 8) and (f.bits >= 8):
            continue
        pend = 0
        pos += f.bits
        fields.append(f)
    if not fields:
        fields.append(Field("f0", "u8", 8, pre=pend))
        pend = 0
    # trailing skip: sometimes pad to a byte boundary, sometimes leave a ragged total
    if pend:
        fields[-1].post += pend
    if pos % 8 and rng.random() < 0.6:
        fields[-1].post += 8 - pos % 8
    for f in fields:
        spell_for(rng, f)
    s = Struct(ident, fields, spell=rng.choice(["auto", "bits"]))
    if not s.macro_ok() or s.nbytes > 16:
        return None
    return s


def fam_R(fam, prefix, seed, count, pool_nested):
    rng = random.Random(seed)
    out = []
    tries = 0
    while len(out) < count:
        tries += 1
        assert tries < 100 * count + 100
        s = rand_struct(rng, fam, "%s%d" % (prefix, len(out)), pool_nested)
        if s is None:
            continue
        out.append(fam.add(s))
    return out


# =================================================================================================
# in-crate types: parsed from /repo/src
REPO_SRC = os.environ.get("VERIF_REPO_SRC", "/repo/src")
# Rust paths for items that cannot be named through their defining module from crate::verif
PATH_OVERRIDE = {
    "AlStatusCode": "crate::al_status_code::AlStatusCode",
    "CoeAbortCode": "crate::mailbox::coe::CoeAbortCode",
    "CoeService": "crate::mailbox::coe::CoeService",
    "CoeHeader": "crate::mailbox::coe::CoeHeader",
    "CoeCommand": "crate::mailbox::coe::CoeCommand",
    "SdoInfoOpCode": "crate::mailbox::coe::SdoInfoOpCode",
    "SdoHeader": "crate::mailbox::coe::VerifSdoHeader",
    "SdoHeaderSegmented": "crate::mailbox::coe::VerifSdoHeaderSegmented",
    "SdoInfoHeader": "crate::mailbox::coe::VerifSdoInfoHeader",
    "ProtocolType": "crate::pdu_loop::VerifProtocolType",
    "PduHeader": "crate::pdu_loop::VerifPduHeader",
    "SubDeviceIdentity": "crate::subdevice::SubDeviceIdentity",
}
# struct name -> fields that are not visible from crate::verif (served by verif_ hooks)
HIDDEN_FIELDS = {"SiiRequest": {"control", "address"}, "SdoHeaderSegmented": {"command"}}


def parse_int(s):
    s = s.strip().replace("_", "")
    s = re.sub(r"(u|i)(8|16|32|64|128|size)$", "", s)
    neg = s.startswith("-")
    if neg:
        s = s[1:].strip()
    v = int(s, 16) if s.lower().startswith("0x") else int(s, 2) if s.lower().startswith("0b") else int(s)
    return -v if neg else v


def wire_attr(text):
    """all key[=value] entries of the #[wire(...)] attributes in `text`"""
    d = {}
    for m in re.finditer(r"#\[wire\((.*?)\)\]", text, re.S):
        body = m.group(1)
        # alternatives = [..] contains commas
        for part in re.split(r",(?![^\[]*\])", body):
            part = part.strip()
            if not part:
                continue
            if "=" in part:
                k, v = part.split("=", 1)
                d[k.strip()] = v.strip()
            else:
                d[part] = True
    return d


def scan_repo():
    items = []
    for dp, _dn, fns in sorted(os.walk(REPO_SRC)):
        for fn in sorted(fns):
            if not fn.endswith(".rs"):
                continue
            path = os.path.join(dp, fn)
            src = open(path).read()
            for m in re.finditer(r"^([ \t]*)#\[(?:cfg_attr\(\s*not\(test\),\s*)?derive\(([^\]]*?EtherCrabWire\w+[^\]]*?)\)\)?\]", src, re.M):
                indent = m.group(1)
                dm = re.search(r"EtherCrabWire(ReadWrite|Read|Write)", m.group(2))
                derive = {"ReadWrite": "RW", "Read": "R", "Write": "W"}[dm.group(1)]
                rest = src[m.end():]
                im = re.search(r"\b(struct|enum)\s+(\w+)", rest)
                hdr = rest[:im.start()]
                if "derive(arbitrary::Arbitrary, ethercrab_wire::EtherCrabWireReadWrite" in m.group(0):
                    continue
                kind, name = im.group(1), im.group(2)
                bs = rest.index("{", im.end())
                depth = 0
                for k in range(bs, len(rest)):
                    if rest[k] == "{":
                        depth += 1
                    elif rest[k] == "}":
                        depth -= 1
                        if depth == 0:
                            break
                body = rest[bs + 1:k]
                body = re.sub(r"//[^\n]*", "", body)
                rel = os.path.relpath(path, REPO_SRC)[:-3].split(os.sep)
                if rel[-1] in ("mod", "lib"):
                    rel = rel[:-1]
                items.append(dict(file=path, line=src[:m.start()].count("\n") + 1, local=bool(indent), derive=derive, kind=kind, name=name,
                                  hdr=hdr, body=body, modpath="crate::" + "::".join(rel) if rel else "crate",
                                  partial_eq="PartialEq" in m.group(2) or "PartialEq" in hdr))
    return items


def split_top(body):
    """split a struct/enum body at top-level commas"""
    parts, depth, cur = [], 0, ""
    for ch in body:
        if ch in "([{<":
            depth += 1
        elif ch in ")]}>":
            depth -= 1
        if ch == "," and depth == 0:
            parts.append(cur)
            cur = ""
        else:
            cur += ch
    if cur.strip():
        parts.append(cur)
    return [p for p in parts if p.strip()]


def build_incrate(fam):
    """returns (list of idents in dependency order, list of skipped (name, reason))"""
    items = scan_repo()
    skipped = []
    todo = []
    for it in items:
        if it["local"]:
            skipped.append((it["name"], "defined inside a function body (%s:%d)" % (os.path.relpath(it["file"], REPO_SRC), it["line"])))
            continue
        todo.append(it)
    names = {it["name"] for it in todo}
    done = []
    # enums first (no dependencies)
    for it in todo:
        if it["kind"] != "enum":
            continue
        ha = wire_attr(it["hdr"])
        rm = re.search(r"#\[repr\((\w+)\)\]", it["hdr"])
        variants = []
        for part in split_top(it["body"]):
            va = wire_attr(part)
            default = "#[default]" in part
            decl = re.sub(r"#\[[^\]]*\]", "", re.sub(r"#\[wire\(.*?\)\]", "", part, flags=re.S)).strip()
            vm = re.match(r"(\w+)\s*(\(\s*\w+\s*\))?\s*(=\s*(.+))?$", decl, re.S)
            v = dict(name=vm.group(1), default=default, catch_all=bool(va.get("catch_all")))
            if vm.group(4) is not None:
                v["disc"] = parse_int(vm.group(4))
            if "alternatives" in va:
                v["alts"] = [parse_int(x) for x in va["alternatives"].strip("[]").split(",") if x.strip()]
            variants.append(v)
        path = PATH_OVERRIDE.get(it["name"], it["modpath"] + "::" + it["name"])
        e = Enum(it["name"], rm.group(1), variants, derive=it["derive"], path=path, partial_eq=it["partial_eq"],
                 wire_bits=int(ha["bits"]) if "bits" in ha else None)
        fam.add(e)
        done.append(it["name"])
    # structs in dependency order
    pending = [it for it in todo if it["kind"] == "struct"]
    progress = True
    while pending and progress:
        progress = False
        for it in list(pending):
            ha = wire_attr(it["hdr"])
            total = int(ha["bits"]) if "bits" in ha else 8 * int(ha["bytes"])
            fields, wait = [], False
            for part in split_top(it["body"]):
                fa = wire_attr(part)
                decl = re.sub(r"#\[[^\]]*\]", "", re.sub(r"#\[wire\(.*?\)\]", "", part, flags=re.S)).strip()
                fm = re.match(r"(pub(\([^)]*\))?\s+)?(\w+)\s*:\s*(.+)$", decl, re.S)
                fname, fty = fm.group(3), " ".join(fm.group(4).split())
                base = fty.split("::")[-1]
                if base in names and base not in fam.types:
                    wait = True
                    break
                bits = int(fa["bits"]) if "bits" in fa else 8 * int(fa["bytes"]) if "bytes" in fa else (PRIM.get(fty, (None,))[0])
                pre = int(fa["pre_skip"]) if "pre_skip" in fa else 8 * int(fa.get("pre_skip_bytes", 0))
                post = int(fa["post_skip"]) if "post_skip" in fa else 8 * int(fa.get("post_skip_bytes", 0))
                skip = bool(fa.get("skip"))
                vis = fname not in HIDDEN_FIELDS.get(it["name"], ())
                fields.append(Field(fname, fty, bits, pre=0 if skip else pre, post=0 if skip else post, skip=skip, vis=vis))
            if wait:
                continue
            path = PATH_OVERRIDE.get(it["name"], it["modpath"] + "::" + it["name"])
            try:
                s = Struct(it["name"], fields, derive=it["derive"], path=path, total_bits=total)
                fam.add(s)
            except KeyError as ex:
                skipped.append((it["name"], str(ex)))
                pending.remove(it)
                progress = True
                continue
            done.append(it["name"])
            pending.remove(it)
            progress = True
    for it in pending:
        skipped.append((it["name"], "unresolved field type"))
    return done, skipped


# =================================================================================================
def chunks(lst, n):
    return [lst[k:k + n] for k in range(0, len(lst), n)]


def main():
    outdir = sys.argv[1] if len(sys.argv) > 1 else os.environ.get("VERIF_HDIR", "/verif/kani/harness")
    tier = sys.argv[2] if len(sys.argv) > 2 else "quick"
    seed = int(sys.argv[3]) if len(sys.argv) > 3 else 0
    fam = Family()
    enums = build_common_enums(fam)
    # small building blocks for nesting
    fam.add(Struct("Nib", [Field("lo", "u8", 2), Field("hi", "bool", 1), Field("e", "EBit1", 1)]))
    fam.add(Struct("Word16", [Field("a", "u8", 5), Field("b", "EPlain8", 2, post=1), Field("c", "u8", 8)]))
    fam.add(Struct("Mixed5", [Field("a", "u16", 16), Field("b", "ECatch8", 4), Field("c", "u8", 4), Field("d", "i16", 16, post=0)]))
    blocks = ["Nib", "Word16", "Mixed5"]
    groups = []   # (harness, tier, idents, what)

    def group(prefix, tier_, idents, per, what):
        for k, ch in enumerate(chunks(idents, per)):
            groups.append(("%s_%d" % (prefix, k), tier_, ch, what))

    group("c19_gen_enum", "quick", enums, 10, "generated enums (standalone)")
    group("c19_gen_block", "quick", blocks, 3, "nesting building blocks")
    aq, at = fam_A(fam, tier)
    group("c19_gen_a", "quick", aq, 12, "family A: one bit field (offset, width) between fillers")
    group("c19_gen_a_t", "thorough", at, 15, "family A (all field kinds, both byte positions)")
    bq, bt = fam_B(fam, tier)
    group("c19_gen_b", "quick", bq, 10, "family B: tilings of a byte")
    group("c19_gen_b_t", "thorough", bt, 15, "family B (remaining tilings and skip variants)")
    cq, ct = fam_C(fam, tier)
    group("c19_gen_c", "quick", cq, 8, "family C: multi-byte primitives at byte offsets with skips")
    group("c19_gen_c_t", "thorough", ct, 14, "family C (all offset/skip combinations)")
    d = fam_D(fam, tier)
    heavy = ["D_nest2"]     # expensive member (deep nesting)
    group("c19_gen_d", "quick", [x for x in d if x not in heavy], 8, "family D: special shapes")
    group("c19_gen_d_t", "thorough", heavy, 1, "family D: special shapes (expensive members)")
    nest_pool = blocks + ["D_mid", "D_nest", "D_enums"]
    r = fam_R(fam, "R", 0xC19, 24, nest_pool)
    group("c19_gen_r", "quick", r, 8, "family R: random structs, fixed seed 0xC19")
    rt = fam_R(fam, "RT", 0xC19 + 1, 376, nest_pool)
    group("c19_gen_r_t", "thorough", rt, 12, "family R: random structs, fixed seed 0xC1A")
    sx = fam_R(fam, "SX", seed, 100, nest_pool)
    group("c19_gen_seeded", "quick", sx[:6], 6, "family S: random structs from VERIF_SEED=%d" % seed)
    group("c19_gen_seeded_t", "thorough", sx[6:], 12, "family S: random structs from VERIF_SEED=%d" % seed)
    findings = fam_F(fam)
    gen_idents = list(fam.types.keys())
    inc, skipped = build_incrate(fam)
    inc_enums = [n for n in inc if isinstance(fam.types[n], Enum)]
    inc_structs = [n for n in inc if isinstance(fam.types[n], Struct)]
    group("c19_crate_enum", "quick", inc_enums, 12, "derived enums of /repo/src")
    group("c19_crate_struct", "quick", inc_structs, 6, "derived structs of /repo/src")

    # In a quick run the members that only thorough harnesses use are not emitted (build time); the
    # thorough harnesses then appear as metadata-only stubs so that the registry knows their names.
    thorough_only = set()
    if tier != "thorough":
        used_quick = {i for (_n, t_, ids, _w) in groups if t_ == "quick" for i in ids}
        thorough_only = {i for (_n, t_, ids, _w) in groups if t_ == "thorough" for i in ids} - used_quick - set(nest_pool)

    o = Out()
    o.w("// GENERATED by /verif/tools/gen_layouts.py (tier=%s seed=%d) -- do not edit." % (tier, seed))
    o.w("// C19: family of wire type definitions compiled by the real ethercrab-wire-derive, each with the")
    o.w("// reference layout computed by the generator, plus the derived wire types of /repo/src.")
    o.w("use crate::verif::c19::*;")
    o.w("use ethercrab_wire::{")
    o.w("    EtherCrabWireRead, EtherCrabWireSized, EtherCrabWireWrite, EtherCrabWireWriteSized, WireError,")
    o.w("};")
    o.w()
    for ident, t in fam.types.items():
        if ident in thorough_only:
            continue
        o.w("// ---- %s%s" % (ident, "" if t.defined else "  (= %s)" % t.path))
        if isinstance(t, Enum):
            if t.defined:
                emit_enum_def(o, t)
            emit_enum_ref(o, t)
            emit_enum_check(o, t)
        else:
            if t.defined:
                emit_struct_def(o, t)
            emit_struct_ref(o, t, fam.types)
            emit_struct_check(o, t, fam.types)
        o.w()

    def max_array(idents):
        """largest array length decoded by a Read impl reachable from the given types"""
        best = 0
        for i in idents:
            t = fam.types[i]
            if not isinstance(t, Struct):
                continue
            for f in t.fields:
                if f.kind in ("u8arr", "arr") and "R" in t.derive:
                    best = max(best, f.n)
                elif f.kind == "struct" and "R" in t.derive:
                    best = max(best, max_array([f.ref]))
        return best

    def harness(name, tier_, idents, what, expect_fail=None):
        kinds = sorted({"struct" if isinstance(fam.types[i], Struct) else "enum" for i in idents})
        o.w("//@ harness: %s" % name)
        o.w("//@ property: C19")
        o.w("//@ tier: %s" % tier_)
        o.w("//@ unwind: 66")
        amax = max_array(idents)
        if amax:
            # [T; N]::unpack_from_slice = chunks_exact().take(N).map().collect(): CBMC cannot see the trip
            # count of the nested iterator loops; N + 2 is enough (unwinding assertions are on)
            o.w("//@ unwindset: ChunksExact:%d" % (amax + 2))
        o.w("//@ timeout: %d" % (600 if tier_ == "quick" else 1200))
        fns = []
        for i in idents:
            t = fam.types[i]
            if "W" in t.derive:
                fns += ["%s::pack" % t.path, "%s::pack_to_slice" % t.path]
            if "R" in t.derive:
                fns += ["%s::unpack_from_slice" % t.path]
        o.w("//@ functions: %s" % "; ".join(fns))
        o.w("//@ bounds: %s: %s; per type: symbolic value, symbolic source/destination buffers of PACKED_LEN+2 (enums +1) bytes with symbolic slice length (types containing arrays: every source length 0..=PACKED_LEN+2 enumerated instead); "
            "unwind 66 = 64 bit reference bit loop + 2, all loops have concrete bounds" % (what, ", ".join(idents)))
        o.w("//@ assumes: slice lengths <= buffer size; round trip only asserted for values that fit their declared field width (fits_*)")
        o.w("//@ outside: type definitions not in the generated family (the quantifier over programs is a finite systematic family plus seeded extras, not a solver variable)")
        if expect_fail:
            o.w("//@ expect_fail: %s" % expect_fail)
        if any(i in thorough_only for i in idents):
            o.w("// (metadata only: members and body are generated when pregen runs with tier=thorough)")
            o.w()
            return
        o.w("#[kani::proof]")
        o.w("#[kani::unwind(66)]")
        o.w("pub fn %s() {" % name)
        for i in idents:
            o.w("    check_%s();" % i)
        o.w("}")
        o.w()

    dbg = os.environ.get("C19_DEBUG_SINGLE")
    if dbg:
        # debugging aid: one harness per listed type
        for i in dbg.split(","):
            harness("c19_one_%s" % i, "thorough", [i], "single type (debug)")
    for (name, tier_, idents, what) in groups:
        if idents:
            harness(name, tier_, idents, what)
    for (name, idents, why) in findings:
        harness(name, "quick", idents, "candidate finding", expect_fail=why)
    o.w("// in-crate derived types not covered here:")
    for n, why in skipped:
        o.w("//   %s: %s" % (n, why))
    path = os.path.join(outdir, "c19_gen.rs")
    tmp = path + ".tmp%d" % os.getpid()
    open(tmp, "w").write(o.text())
    os.replace(tmp, path)
    ngen = len([i for i in gen_idents if i not in thorough_only])
    nh = len([g for g in groups if g[2] and not any(i in thorough_only for i in g[2])]) + len(findings)
    print("c19_gen.rs (tier=%s seed=%d): %d generated definitions emitted (%d in the full family), %d in-crate types, %d harnesses with body, skipped in-crate: %s" % (
        tier, seed, ngen, len(gen_idents), len(inc), nh, ", ".join(n for n, _ in skipped) or "-"))


if __name__ == "__main__":
    main()

#!/usr/bin/env python3
"""mirslice.py -- MIR slice -> SMT-LIB2 checker for property C18 (DC sync timing arithmetic).

What it does on EVERY run (nothing is cached):
  1. copies the working tree of --repo (default /repo) into a fresh temp dir under /tmp,
     dumps MIR with the nightly toolchain (overflow-checks=on) and removes the temp dir afterwards;
  2. locates the coroutine bodies `tx_rx_dc::{closure#0}` and `configure_dc_sync::{closure#0}`,
     finds the straight-line basic-block chains with the cycle arithmetic / start-time arithmetic /
     u32 range checks and evaluates them SYMBOLICALLY (free inputs = field loads and call results
     that feed the chain); anything it does not understand inside a slice => INCONCLUSIVE (exit 2);
  3. emits the negated property as SMT-LIB2 queries in two encodings (bit-vectors, faithful wrap;
     mathematical Ints with explicit ranges and `mod 2^w`), runs z3 and cvc5 on each (60 s cap);
  4. translator validation: evaluates the SAME extracted slice concretely on ~50 vectors and
     compares with a hand-written Python re-implementation of the Rust source expressions. This
     cross-checks the EXTRACTION/ENCODING only; the oracle for the property itself is the
     mathematical statement inside each query (div/mod of the Int theory, wide bit-vectors).

Verdict per query: DISCHARGED  = some encoding answered `unsat` on both z3 and cvc5, nobody said `sat`
                   VIOLATED    = some solver said `sat` (model printed)
                   INCONCLUSIVE otherwise.   Exit code 0 / 1 / 2.
Witness lines (Wn) document that a precondition of the property is NECESSARY (expected `sat`); they
never influence the exit code.

Queries (negated goal => expect unsat).  tx_rx_dc, under 1 <= period < 2^32, shift <= 2^33, time any u64:
  Q1 offset == time mod period          Q2 0 <= offset < period        Q3 `period - offset` cannot overflow
  Q4 `(period-offset)+shift` cannot overflow and equals period - offset + shift over the integers
  Q5 the remainder-by-zero assert cannot fail   Q6 CycleInfo{dc_system_time=time, offset, wait} exactly
configure_dc_sync, under "range checks passed", period >= 1 ns, sys + delay < 2^64:
  Q7 start == ((sys+delay) div period)*period   Q8 start mod period == 0   Q9 sys+delay-period < start <= sys+delay
  Q10 no overflow/div-by-zero assert can fail    Q11 the range checks are exactly `as_nanos < 2^32` on period and delay
  Q12 DcSyncStartTime <- start, DcSync0CycleTime <- period, HasDc{period, shift mod 2^64}
  Q13 filter predicate == dc_support().any() && dc_sync() != Disabled (all paths of the closure)
  Q14 activation byte 0x00, then 0x07 (Sync01) / 0x03 (otherwise); SYNC1 cycle time only for Sync01
  Q15 dc_ref_address() == None <=> early `return Err(NoReference)` without register access
  W1..W3 witnesses: shift unbounded / sys+delay >= 2^64 / period == 0 reach an overflow or div-by-zero panic.
CLI: mirslice.py [--repo /repo] [--json OUT] [--timeout 60] [--jobs 6] [--keep-smt DIR]   (VERIF_SEED picks the
random validation vectors; solver verdicts do not depend on it).  --mir FILE is a development shortcut (marked stale).

Soundness assumptions of the evaluator (all documented in the --json output):
  * coroutine-state scalar fields that are stored exactly once in the function and whose address is
    never taken keep their value between slices (Rust definite initialisation + no aliasing);
  * a store only invalidates cached loads with an overlapping path, or loads through another
    root that have the same type (type-based alias rule);
  * std axioms: Duration::as_nanos -> u128 (<= (2^64-1)*10^9 + 999_999_999), uN::try_from::<uM> is Ok(x)
    iff x < 2^N, Result=Ok:0/Err:1, Try::branch maps Ok->Continue(0) Err->Break(1), u64::from(u32) is
    zero extension, Duration::from_nanos(n) denotes exactly n nanoseconds.
"""
import argparse
import concurrent.futures
import json
import os
import random
import re
import shutil
import subprocess
import sys
import tempfile
import time

M64 = 1 << 64
AS_NANOS_MAX = (M64 - 1) * 10**9 + 999_999_999


class Unsupported(Exception):
    """Raised when the slice contains something the translator refuses to guess about."""


# --------------------------------------------------------------------------------------------
# 1. MIR dump
# --------------------------------------------------------------------------------------------

def dump_mir(repo, log):
    tmp = tempfile.mkdtemp(prefix="mirslice_", dir="/tmp")
    try:
        dst = os.path.join(tmp, "repo")
        top = os.path.abspath(repo)

        def ignore(d, names):
            out = [n for n in names if n == ".git"]
            if "target" in names and (os.path.abspath(d) == top
                                      or os.path.exists(os.path.join(d, "target", "CACHEDIR.TAG"))):
                out.append("target")
            return out
        shutil.copytree(repo, dst, ignore=ignore, symlinks=True)
        os.utime(os.path.join(dst, "src", "lib.rs"))
        env = dict(os.environ)
        for k in ("RUSTFLAGS", "CARGO_ENCODED_RUSTFLAGS", "RUSTC_WRAPPER", "CARGO_BUILD_RUSTFLAGS"):
            env.pop(k, None)
        env["CARGO_TARGET_DIR"] = os.path.join(tmp, "target")
        cmd = ["cargo", "+nightly", "rustc", "--offline", "--lib", "--no-default-features", "--",
               "-Zunpretty=mir", "-C", "debug-assertions=off", "-C", "overflow-checks=on"]
        t0 = time.time()
        p = subprocess.run(cmd, cwd=dst, env=env, stdout=subprocess.PIPE, stderr=subprocess.PIPE,
                           text=True, timeout=1800)
        log["mir_dump_cmd"] = " ".join(cmd)
        log["mir_dump_seconds"] = round(time.time() - t0, 1)
        if p.returncode != 0 or not p.stdout.strip():
            errs = [l for l in p.stderr.splitlines() if l.startswith("error")][:5]
            raise Unsupported("MIR dump failed (rc=%d): %s" % (p.returncode, "; ".join(errs) or p.stderr[-400:]))
        return p.stdout, read_sources(dst)
    finally:
        shutil.rmtree(tmp, ignore_errors=True)


def read_sources(root):
    """one string: subdevice_group/mod.rs (HasDc, SubDeviceGroup, constants) + subdevice/dc.rs (enum DcSync)"""
    out = ""
    for rel in (("src", "subdevice_group", "mod.rs"), ("src", "subdevice", "dc.rs")):
        with open(os.path.join(root, *rel)) as f:
            out += f.read() + "\n"
    return out


# --------------------------------------------------------------------------------------------
# 2. MIR text -> functions / blocks / statements
# --------------------------------------------------------------------------------------------

class Block:
    def __init__(self, n, cleanup):
        self.n, self.cleanup, self.lines = n, cleanup, []   # lines: [(lineno, text)]
        self.edges = []                                      # [(label, target)]


class Function:
    def __init__(self, header, first_line):
        self.header, self.first_line = header, first_line
        self.blocks, self.debug, self.locals, self.text = {}, [], {}, []


def find_function(mir_lines, name, suffix="::{closure#0}("):
    pat = "::%s%s" % (name, suffix)
    hits = [i for i, l in enumerate(mir_lines) if l.startswith("fn ") and pat in l]
    if len(hits) != 1:
        raise Unsupported("expected exactly one coroutine body for %s, found %d" % (name, len(hits)))
    i = hits[0]
    fn = Function(mir_lines[i], i + 1)
    cur = None
    j = i + 1
    while j < len(mir_lines) and mir_lines[j] != "}":
        l = mir_lines[j]
        fn.text.append(l)
        m = re.match(r"^    bb(\d+)( \(cleanup\))?: \{$", l)
        if m:
            cur = Block(int(m.group(1)), bool(m.group(2)))
            fn.blocks[cur.n] = cur
        elif l == "    }":
            cur = None
        elif cur is not None and l.strip():
            cur.lines.append((j + 1, l.strip()))
        else:
            s = l.strip()
            m = re.match(r"^debug (\w+) => (.*);$", s)
            if m:
                fn.debug.append((m.group(1), m.group(2)))
            m = re.match(r"^let (?:mut )?(_\d+): (.*);$", s)
            if m:
                fn.locals[m.group(1)] = m.group(2)
        j += 1
    for b in fn.blocks.values():
        if not b.lines:
            continue
        t = b.lines[-1][1]
        m = re.search(r" -> (\[.*\]|bb\d+);$", t)
        if m:
            tg = m.group(1)
            if tg.startswith("bb"):
                b.edges.append(("goto", int(tg[2:])))
            else:
                for part in tg[1:-1].split(", "):
                    mm = re.match(r"^(\w+): bb(\d+)$", part)
                    if mm:
                        b.edges.append((mm.group(1), int(mm.group(2))))
    roots = set(m.group(1) for l in fn.text for m in re.finditer(r"\(\(\*(_\d+)\) as variant#", l))
    fn.state_local = None
    if len(roots) == 1:
        r = roots.pop()
        n_assign = sum(1 for b in fn.blocks.values() for _, t in b.lines if t.startswith(r + " = "))
        if n_assign == 1:
            fn.state_local = r        # the coroutine state pointer: assigned once at entry, same in every slice
    fn.preds = {}
    for b in fn.blocks.values():
        for lab, t in b.edges:
            fn.preds.setdefault(t, []).append((b.n, lab))
    return fn


def match_close(s, i):
    """index of the ')' that closes the paren opened before position i (depth 0 at i)."""
    depth = 0
    while i < len(s):
        c = s[i]
        if c in "([{":
            depth += 1
        elif c in ")]}":
            if depth == 0:
                if c != ")":
                    raise Unsupported("unbalanced type text: " + s)
                return i
            depth -= 1
        i += 1
    raise Unsupported("unterminated projection: " + s)


def parse_place(s, i):
    if s[i] == "_":
        m = re.match(r"_\d+", s[i:])
        if not m:
            raise Unsupported("bad local at: " + s[i:i + 30])
        j = i + len(m.group(0))
        if j < len(s) and s[j] == "[":
            raise Unsupported("index projection: " + s[i:i + 40])
        return ("local", m.group(0)), j
    if s[i] == "(":
        if s[i + 1] == "*":
            p, j = parse_place(s, i + 2)
            if s[j] != ")":
                raise Unsupported("bad deref: " + s[i:i + 60])
            return ("deref", p), j + 1
        p, j = parse_place(s, i + 1)
        if s.startswith(" as ", j):
            k = s.index(")", j)
            return ("downcast", p, s[j + 4:k]), k + 1
        m = re.match(r"\.(\d+): ", s[j:])
        if m:
            ts = j + len(m.group(0))
            k = match_close(s, ts)
            return ("field", p, int(m.group(1)), s[ts:k]), k + 1
    raise Unsupported("cannot parse place at: " + s[i:i + 60])


INT_W = {"u8": 8, "u16": 16, "u32": 32, "u64": 64, "u128": 128, "usize": 64, "bool": "bool"}


def type_width(ty):
    return INT_W.get(ty.strip())          # None => opaque


def parse_operand(s, i):
    for kw in ("no_retag copy ", "copy ", "move "):
        if s.startswith(kw, i):
            p, j = parse_place(s, i + len(kw))
            return ("use", p), j
    if s.startswith("const ", i):
        j = i + 6
        m = re.match(r"(\d+)_(u8|u16|u32|u64|u128|usize)\b", s[j:])
        if m:
            return ("const", INT_W[m.group(2)], int(m.group(1))), j + len(m.group(0))
        m = re.match(r"(true|false)\b", s[j:])
        if m:
            return ("const", "bool", 1 if m.group(1) == "true" else 0), j + len(m.group(0))
        m = re.match(r"-?\d+_i(8|16|32|64|128|size)\b", s[j:])
        if m:
            raise Unsupported("signed constant: " + s[i:i + 30])
        m = re.match(r"[A-Za-z_][\w:]*", s[j:])
        if m:
            return ("constname", m.group(0)), j + len(m.group(0))
        raise Unsupported("constant form: " + s[i:i + 40])
    raise Unsupported("operand form: " + s[i:i + 40])


def parse_operand_list(s, i, close):
    """parse `op, op, ...` up to the closing char at s[j]; returns ([ops], j_after_close)"""
    ops = []
    if s[i] == close:
        return ops, i + 1
    while True:
        o, i = parse_operand(s, i)
        ops.append(o)
        if s.startswith(", ", i):
            i += 2
        elif s[i] == close:
            return ops, i + 1
        else:
            raise Unsupported("operand list: " + s[i:i + 40])


BINOPS = {"Add", "Sub", "Mul", "AddWithOverflow", "SubWithOverflow", "MulWithOverflow", "Div", "Rem",
          "BitOr", "BitAnd", "BitXor", "Eq", "Ne", "Lt", "Le", "Gt", "Ge"}
REFUSED_OPS = {"Shl", "Shr", "Neg", "AddUnchecked", "SubUnchecked", "MulUnchecked", "ShlUnchecked",
               "ShrUnchecked", "Offset", "Cmp", "PtrMetadata"}


def parse_rvalue(s):
    """returns a tuple describing the rvalue (no terminator part, no trailing ';')"""
    if s.startswith(("copy ", "move ", "const ", "no_retag ")):
        o, j = parse_operand(s, 0)
        if j == len(s):
            return ("operand", o)
        m = re.match(r"^ as ([\w:]+) \((\w+)\)$", s[j:])
        if m:
            return ("cast", o, m.group(1), m.group(2))
        raise Unsupported("rvalue tail: " + s[j:j + 40])
    m = re.match(r"^&(mut |raw const |raw mut )?", s)
    if m and s[0] == "&":
        p, j = parse_place(s, len(m.group(0)))
        if j != len(s):
            raise Unsupported("ref tail: " + s)
        return ("ref", p, (m.group(1) or "").strip())
    if s.startswith("discriminant("):
        p, j = parse_place(s, len("discriminant("))
        return ("discriminant", p)
    m = re.match(r"^(\w+)\(", s)
    if m and m.group(1) in BINOPS:
        ops, j = parse_operand_list(s, len(m.group(0)), ")")
        if len(ops) != 2 or j != len(s):
            raise Unsupported("binop arity: " + s)
        return ("binop", m.group(1), ops[0], ops[1])
    if m and m.group(1) == "Not":
        ops, j = parse_operand_list(s, 4, ")")
        return ("not", ops[0])
    if m and m.group(1) in REFUSED_OPS:
        raise Unsupported("operator not supported: " + m.group(1))
    # aggregates
    m = re.match(r"^([A-Za-z_<][^{}()]*?) \{ (.*) \}$", s)
    if m:
        name, body, fields, i = m.group(1), m.group(2), [], 0
        while i < len(body):
            mm = re.match(r"(\w+): ", body[i:])
            if not mm:
                raise Unsupported("aggregate field: " + body[i:i + 40])
            o, i2 = parse_operand(body, i + len(mm.group(0)))
            fields.append((mm.group(1), o))
            i = i2 + 2 if body.startswith(", ", i2) else i2
        return ("agg", name, fields)
    if s.startswith("(") and s.endswith(")") and not s.startswith("(*") and re.match(r"^\((copy|move|const) ", s):
        ops, j = parse_operand_list(s, 1, ")")
        return ("agg", "tuple", [(str(k), o) for k, o in enumerate(ops)])
    if s.endswith(")"):
        k = find_args_open(s)
        name = s[:k]
        if re.match(r"^[A-Za-z_<]", name) and "(" not in name.split("::")[-1]:
            ops, j = parse_operand_list(s, k + 1, ")")
            return ("agg", name, [(str(n), o) for n, o in enumerate(ops)])
    if re.match(r"^[A-Za-z_<][\w:<>, ']*$", s):
        return ("agg", s, [])
    raise Unsupported("rvalue form: " + s[:80])


def find_args_open(s):
    """s ends with ')': index of the matching '('"""
    depth = 0
    for i in range(len(s) - 1, -1, -1):
        c = s[i]
        if c in ")]}":
            depth += 1
        elif c in "([{":
            depth -= 1
            if depth == 0:
                return i
    raise Unsupported("call parens: " + s)


def parse_statement(text):
    """-> dict(kind=..., ...)"""
    s = text
    if s in ("return;", "unreachable;", "nop;") or s.startswith(("StorageLive(", "StorageDead(", "resume", "coroutine_drop")):
        return {"kind": "misc", "text": s}
    if s.startswith("goto -> "):
        return {"kind": "goto"}
    if s.startswith("switchInt("):
        o, j = parse_operand(s, len("switchInt("))
        return {"kind": "switch", "op": o}
    if s.startswith("drop("):
        p, j = parse_place(s, 5)
        return {"kind": "drop", "place": p}
    if s.startswith("assert("):
        i = 7
        neg = s[i] == "!"
        if neg:
            i += 1
        o, j = parse_operand(s, i)
        m = re.match(r', "([^"]*)"', s[j:])
        return {"kind": "assert", "neg": neg, "op": o, "msg": m.group(1) if m else "?"}
    if s.startswith("discriminant("):
        raise Unsupported("SetDiscriminant in slice: " + s)
    lhs, j = parse_place(s, 0)
    if not s.startswith(" = ", j):
        raise Unsupported("statement form: " + s[:80])
    rest = s[j + 3:]
    m = re.search(r" -> (\[.*\]|bb\d+);$", rest)
    if m:
        call = rest[:m.start()]
        if not call.endswith(")"):
            raise Unsupported("terminator form: " + s[:80])
        k = find_args_open(call)
        args, _ = parse_operand_list(call, k + 1, ")")
        return {"kind": "call", "dest": lhs, "func": call[:k], "args": args}
    if not rest.endswith(";"):
        raise Unsupported("statement end: " + s[:80])
    return {"kind": "assign", "dest": lhs, "rv": parse_rvalue(rest[:-1])}

# --------------------------------------------------------------------------------------------
# 3. term language + symbolic evaluator
# --------------------------------------------------------------------------------------------
# terms:  ('c', w, v)  ('s', name, w)  ('op', name, w, a, b)  ('cmp', name, a, b)  ('ovf', name, w, a, b)
#         ('not', a)  ('zext', a, w)  ('trunc', a, w)  ('ite', c, a, b)  ('tuple', (..))  ('agg', name, ((f, t),..))
#         ('ref', path)  ('branch', inner)  ('tryfrom', src, w)          w = int | 'bool' | None (opaque)

def twidth(t):
    k = t[0]
    if k == "c":
        return t[1]
    if k == "s":
        return t[2]
    if k in ("op", "ovf"):
        return t[2] if k == "op" else "bool"
    if k in ("cmp", "not"):
        return "bool"
    if k in ("zext", "trunc"):
        return t[2]
    if k == "ite":
        return twidth(t[2])
    return None


def mk_op(name, a, b):
    w = twidth(a)
    if w != twidth(b) or not isinstance(w, int):
        raise Unsupported("operand widths of %s: %r vs %r" % (name, twidth(a), twidth(b)))
    if a[0] == "c" and b[0] == "c" and name in ("or", "and", "xor"):
        v = {"or": a[2] | b[2], "and": a[2] & b[2], "xor": a[2] ^ b[2]}[name]
        return ("c", w, v)
    return ("op", name, w, a, b)


def mk_cmp(name, a, b):
    if twidth(a) != twidth(b) or twidth(a) is None:
        raise Unsupported("compare widths: %r vs %r" % (twidth(a), twidth(b)))
    return ("cmp", name, a, b)


def mk_not(a):
    if twidth(a) != "bool":
        raise Unsupported("Not on non-bool")
    return a[1] if a[0] == "not" else ("not", a)


def pretty_path(path):
    root, projs = path
    s = root[1] if root[0] == "local" else "*" + root[1]
    if root[0] == "ptr" and projs and not re.match(r"^_\d+$", root[1]):
        s = "*(" + root[1] + ")"
    for p in projs:
        s += (".%d" % p[1]) if p[0] == "f" else ("@" + p[1])
    return s


class Eval:
    KNOWN_DESC = {
        "as_nanos": "core::time::Duration::as_nanos(&d) -> u128 symbol per Duration value, <= (2^64-1)*10^9+999999999",
        "try_from": "<uN as TryFrom<uM>>::try_from(x) -> Ok(x mod 2^N) iff x < 2^N else Err",
        "branch": "<Result<T,E> as Try>::branch: Ok(v)->Continue(v) (discr 0), Err(e)->Break(Err(e)) (discr 1)",
        "from": "<uN as From<uM>>::from = zero extension (M < N)",
        "from_nanos": "core::time::Duration::from_nanos(n): Duration of exactly n ns (injective constructor)",
        "duration_accessors": "Duration::{subsec_nanos, as_secs, subsec_micros, subsec_millis, as_micros, as_millis} are defined from as_nanos by div/mod with 10^9, 10^6, 10^3",
    }

    def __init__(self, fn, consts, stable=None, mem=None, tag=""):
        self.fn, self.consts, self.tag = fn, consts, tag
        self.stable = stable or set()
        self.env, self.mem, self.memtype = {}, dict(mem or {}), {}
        self.events, self.inputs, self.aggs, self.calls, self.lines = [], {}, [], [], []
        self.loadcount, self.axioms_used, self.bbs = {}, set(), []
        self.stores, self.cur_line = [], 0

    # ---- symbols ----
    def fresh(self, base, w, desc):
        if base != self.fn.state_local:
            base += self.tag          # values of different slices are unrelated unless carried explicitly
        n = self.loadcount.get(base, 0)
        self.loadcount[base] = n + 1
        name = base if n == 0 else "%s#%d" % (base, n)
        self.inputs[name] = {"width": w, "desc": desc}
        return ("s", name, w)

    # ---- places ----
    def resolve(self, pl):
        k = pl[0]
        if k == "local":
            return (("local", pl[1]), ())
        if k == "deref":
            v = self.read(pl[1])
            if v[0] == "ref":
                return v[1]
            if v[0] == "s" and v[2] is None:
                return (("ptr", v[1]), ())
            raise Unsupported("deref of non-pointer value")
        root, projs = self.resolve(pl[1])
        if k == "downcast":
            return (root, projs + (("v", pl[2]),))
        if k == "field":
            return (root, projs + (("f", pl[2], pl[3]),))
        raise Unsupported("place kind " + k)

    def project(self, v, projs, where):
        i = 0
        while i < len(projs):
            p = projs[i]
            if p[0] == "v":
                if i + 1 >= len(projs) or projs[i + 1][0] != "f":
                    raise Unsupported("bare downcast at " + where)
                var, idx, ty = p[1], projs[i + 1][1], projs[i + 1][2]
                i += 2
                if v[0] == "branch":
                    if var == "Continue" and idx == 0:
                        v = self.project(v[1], (("v", "Ok"), ("f", 0, ty)), where)
                    else:
                        v = self.fresh("%s@%s.%d" % (self.name_of(v), var, idx), type_width(ty), "payload of " + var)
                elif v[0] == "tryfrom":
                    if var == "Ok" and idx == 0:
                        v = ("trunc", v[1], v[2])
                    else:
                        v = self.fresh("tryfrom_err", None, "TryFromIntError payload")
                elif v[0] == "s" and v[2] is None:
                    key = "%s@%s.%d" % (v[1], var, idx)
                    if key in self.inputs:
                        v = ("s", key, self.inputs[key]["width"])
                    else:
                        v = self.fresh(key, type_width(ty), "field of opaque value (%s)" % ty)
                else:
                    raise Unsupported("downcast of %s at %s" % (v[0], where))
                continue
            idx, ty = p[1], p[2]
            i += 1
            if v[0] == "tuple":
                v = v[1][idx]
            elif v[0] == "agg":
                v = v[2][idx][1]
            elif v[0] == "s" and v[2] is None:
                key = "%s.%d" % (v[1], idx)
                if key in self.inputs:
                    v = ("s", key, self.inputs[key]["width"])
                else:
                    v = self.fresh(key, type_width(ty), "field of opaque value (%s)" % ty)
            else:
                raise Unsupported("field projection of %s at %s" % (v[0], where))
        return v

    def name_of(self, v):
        if v[0] == "s":
            return v[1]
        if v[0] == "branch":
            return "branch(" + self.name_of(v[1]) + ")"
        return v[0]

    def read(self, pl):
        root, projs = path = self.resolve(pl)
        where = pretty_path(path)
        if root[0] == "local":
            n = root[1]
            if n not in self.env:
                ty = self.fn.locals.get(n, "?")
                self.env[n] = self.fresh(n, type_width(ty), "local live-in (%s)" % ty)
            return self.project(self.env[n], projs, where)
        if path in self.mem:
            return self.mem[path]
        for cut in range(len(projs) - 1, 0, -1):
            pre = (root, projs[:cut])
            if pre in self.mem:
                return self.project(self.mem[pre], projs[cut:], where)
        ty = projs[-1][2] if projs and projs[-1][0] == "f" else "?"
        v = self.fresh(where, type_width(ty), "load (%s)" % ty)
        self.mem[path], self.memtype[path] = v, ty
        return v

    def write(self, pl, v):
        root, projs = path = self.resolve(pl)
        if root[0] == "local":
            if projs:
                raise Unsupported("partial write to local " + pretty_path(path))
            self.env[root[1]] = v
            return
        ty = projs[-1][2] if projs and projs[-1][0] == "f" else "?"
        for k in list(self.mem):
            if k[0] == root:
                n = min(len(k[1]), len(projs))
                if k[1][:n] == projs[:n]:
                    del self.mem[k]
            elif self.memtype.get(k, "?") == ty or ty == "?":
                del self.mem[k]
        self.mem[path], self.memtype[path] = v, ty
        self.stores.append({"path": path, "value": v, "nevents": len(self.events), "line": self.cur_line})

    def havoc(self, args):
        for k in list(self.mem):
            if k not in self.stable:
                del self.mem[k]
        for a in args:
            if a[0] == "ref" and a[1][0][0] == "local":
                self.env.pop(a[1][0][1], None)

    # ---- operands / rvalues ----
    def operand(self, o):
        if o[0] == "use":
            return self.read(o[1])
        if o[0] == "const":
            return ("c", o[1], o[2])
        if o[0] == "constname":
            short = o[1].split("::")[-1]
            if short in self.consts:
                return ("c",) + self.consts[short]
            return ("s", "const:" + o[1], None)
        raise Unsupported("operand " + o[0])

    def rvalue(self, rv, dest_ty):
        k = rv[0]
        if k == "operand":
            return self.operand(rv[1])
        if k == "cast":
            if rv[3] != "IntToInt":
                raise Unsupported("cast kind " + rv[3])
            v, wt = self.operand(rv[1]), type_width(rv[2])
            ws = twidth(v)
            if not isinstance(ws, int) or not isinstance(wt, int):
                raise Unsupported("cast %r -> %s" % (ws, rv[2]))
            return v if ws == wt else (("zext", v, wt) if wt > ws else ("trunc", v, wt))
        if k == "ref":
            if rv[2].startswith("raw"):
                raise Unsupported("raw pointer borrow")
            return ("ref", self.resolve(rv[1]))
        if k == "discriminant":
            return self.discr(self.read(rv[1]))
        if k == "not":
            return mk_not(self.operand(rv[1]))
        if k == "binop":
            a, b, op = self.operand(rv[2]), self.operand(rv[3]), rv[1]
            if op in ("AddWithOverflow", "SubWithOverflow", "MulWithOverflow"):
                n = op[:3].lower()
                val = mk_op(n, a, b)
                return ("tuple", (val, ("ovf", n, twidth(a), a, b)))
            if op in ("Add", "Sub", "Mul"):
                return mk_op(op.lower(), a, b)          # wrapping (only emitted with overflow-checks off)
            if op in ("Div", "Rem"):
                return mk_op("udiv" if op == "Div" else "urem", a, b)
            if op in ("BitOr", "BitAnd", "BitXor"):
                return mk_op(op[3:].lower(), a, b)
            return mk_cmp({"Eq": "eq", "Ne": "ne", "Lt": "ult", "Le": "ule", "Gt": "ugt", "Ge": "uge"}[op], a, b)
        if k == "agg":
            return ("agg", rv[1], tuple((f, self.operand(o)) for f, o in rv[2]))
        raise Unsupported("rvalue " + k)

    def discr(self, v):
        if v[0] == "branch":
            return self.discr(v[1])
        if v[0] == "tryfrom":
            return ("ite", ("cmp", "ult", v[1], ("c", twidth(v[1]), 1 << v[2])), ("c", 64, 0), ("c", 64, 1))
        if v[0] == "s" and v[2] is None:
            key = v[1] + "@discr"
            if key not in self.inputs:
                self.fresh(key, 64, "discriminant of opaque value")
            return ("s", key, 64)
        raise Unsupported("discriminant of " + v[0])

    def dest_type(self, pl):
        if pl[0] == "local":
            return self.fn.locals.get(pl[1], "?")
        if pl[0] == "field":
            return pl[3]
        return "?"

    def call(self, st, line):
        f, args = st["func"], [self.operand(a) if a[0] != "use" or True else None for a in st["args"]]
        dty = self.dest_type(st["dest"])
        res = None
        DUR = {"as_nanos": None, "subsec_nanos": ("urem", 10**9, None, 32), "as_secs": ("udiv", 10**9, None, 64),
               "subsec_micros": ("urem", 10**9, 10**3, 32), "subsec_millis": ("urem", 10**9, 10**6, 32),
               "as_micros": ("udiv", 10**3, None, 128), "as_millis": ("udiv", 10**6, None, 128)}
        dm = re.match(r"^core::time::Duration::(\w+)$", f)
        if dm and dm.group(1) in DUR and len(args) == 1 and args[0][0] == "ref":
            root, projs = args[0][1]
            if root[0] == "local":
                if projs:
                    raise Unsupported("as_nanos of a field of a local")
                d = self.read(("local", root[1]))
                if d[0] != "s" or d[2] is not None:
                    raise Unsupported("as_nanos of a computed Duration")
            else:
                d = self.mem.get(args[0][1])
            if d is None:
                d = self.fresh(pretty_path(args[0][1]), None, "load (Duration)")
                self.mem[args[0][1]], self.memtype[args[0][1]] = d, "core::time::Duration"
            key = "as_nanos(%s)" % self.name_of(d)
            if key not in self.inputs:
                self.inputs[key] = {"width": 128, "desc": "Duration::as_nanos of " + self.name_of(d), "max": AS_NANOS_MAX}
            res = ("s", key, 128)
            self.axioms_used.add("as_nanos")
            spec = DUR[dm.group(1)]
            if spec is not None:
                # every other accessor is defined from the total nanosecond count
                op1, k1, k2, w = spec
                res = ("op", op1, 128, res, ("c", 128, k1))
                if k2 is not None:
                    res = ("op", "udiv", 128, res, ("c", 128, k2))
                if w < 128:
                    res = ("trunc", res, w)
                self.axioms_used.add("duration_accessors")
        else:
            m = re.match(r"^<(u\d+|usize) as TryFrom<(u\d+|usize)>>::try_from$", f)
            if m and len(args) == 1 and twidth(args[0]) == INT_W[m.group(2)]:
                wt = INT_W[m.group(1)]
                res = ("tryfrom", args[0], wt) if wt < INT_W[m.group(2)] else None
                self.axioms_used.add("try_from")
            m = re.match(r"^<(u\d+|usize) as From<(u\d+|usize)>>::from$", f)
            if m and len(args) == 1 and twidth(args[0]) == INT_W[m.group(2)] and INT_W[m.group(1)] > INT_W[m.group(2)]:
                res = ("zext", args[0], INT_W[m.group(1)])
                self.axioms_used.add("from")
            if re.match(r"^<(core::result::)?Result<.*> as Try>::branch$", f) and len(args) == 1:
                if args[0][0] in ("tryfrom", "s"):
                    res = ("branch", args[0])
                    self.axioms_used.add("branch")
            if f == "core::time::Duration::from_nanos" and len(args) == 1 and twidth(args[0]) == 64:
                res = ("agg", "Duration::from_nanos", (("nanos", args[0]),))
                self.axioms_used.add("from_nanos")
        known = res is not None
        if not known:
            if re.search(r"(wrapping_|checked_|saturating_|overflowing_|unchecked_|pow|abs_diff|rem_euclid|div_euclid|div_ceil|next_multiple_of|from_secs|from_millis|from_micros|as_secs|as_millis|as_micros|subsec)", f):
                raise Unsupported("arithmetic std call without axiom: " + f)
            self.havoc(args)
            short = re.sub(r"<.*?>", "", f).split("::")[-1] or f
            res = self.fresh("call:%s@L%d" % (short, line), type_width(dty), "result of opaque call " + f)
        self.calls.append({"func": f, "args": args, "result": res, "line": line, "known": known,
                           "dest": self.resolve(st["dest"])})
        self.write(st["dest"], res)

    # ---- chain ----
    def run_chain(self, chain, stop_after_last_stmt=True):
        """chain = [(bb, edge_label_taken_to_next or None)]"""
        for idx, (bn, lab) in enumerate(chain):
            b = self.fn.blocks[bn]
            self.bbs.append(bn)
            self.lines.append((b.lines[0][0] - 1, "bb%d: {" % bn))
            last = idx == len(chain) - 1
            for (ln, text) in b.lines:
                self.lines.append((ln, text))
                try:
                    st = parse_statement(text)
                    self.step(st, ln, bn, lab, last)
                except Unsupported as e:
                    raise Unsupported("bb%d (MIR line %d): %s   [%s]" % (bn, ln, e, text[:100]))

    def step(self, st, ln, bn, lab, last):
        k = st["kind"]
        self.cur_line = ln
        if k == "assign":
            v = self.rvalue(st["rv"], self.dest_type(st["dest"]))
            if v[0] == "agg":
                self.aggs.append({"line": ln, "term": v})
            self.write(st["dest"], v)
        elif k == "call":
            self.call(st, ln)
        elif k == "assert":
            c = self.operand(st["op"])
            if twidth(c) != "bool":
                raise Unsupported("assert on non-bool")
            c = mk_not(c) if st["neg"] else c
            msg = st["msg"]
            kind = ("div0" if "zero" in msg else
                    "sub" if "- {}" in msg else "add" if "+ {}" in msg else "mul" if "* {}" in msg else "other")
            if not last and lab != "success":
                raise Unsupported("chain leaves assert on edge " + str(lab))
            self.events.append({"kind": "assert", "akind": kind, "cond": c, "msg": msg, "line": ln, "bb": bn})
        elif k == "switch":
            if last:
                return
            d = self.operand(st["op"])
            w = twidth(d)
            if not isinstance(w, int) and w != "bool":
                raise Unsupported("switchInt on opaque value")
            w_ = 1 if w == "bool" else w
            labels = [l for l, _ in self.fn.blocks[bn].edges]
            if lab == "otherwise":
                others = [int(l) for l in labels if l.isdigit()]
                conds = [mk_cmp("ne", d, ("c", w, o)) for o in others]
                for c in conds:
                    self.events.append({"kind": "path", "cond": c, "line": ln, "bb": bn, "edge": lab})
            elif lab.isdigit():
                self.events.append({"kind": "path", "cond": mk_cmp("eq", d, ("c", w, int(lab))), "line": ln,
                                    "bb": bn, "edge": lab})
            else:
                raise Unsupported("switch edge " + lab)
        elif k == "drop":
            if not last:
                path = self.resolve(st["place"])
                if path[0][0] == "local":
                    self.env.pop(path[0][1], None)
                else:
                    self.write(st["place"], ("s", "dropped", None))
        elif k == "goto":
            pass
        elif k == "misc":
            if st["text"] in ("return;", "unreachable;") and not last:
                raise Unsupported("chain continues after " + st["text"])
        else:
            raise Unsupported("statement kind " + k)

# --------------------------------------------------------------------------------------------
# 4. encodings.  Formula layer on top of the code terms ("nat" = unbounded naturals):
#    nat:  ('N', term) lift | ('nc', v) | ('nadd', a, b) | ('nmul', a, b) | ('ndiv', a, b) | ('nmod', a, b)
#    form: ('b', boolterm) | ('and', [..]) | ('or', [..]) | ('not', f) | ('imp', a, b) | ('iff', a, b)
#          ('nlt', a, b) | ('nle', a, b) | ('neq', a, b) | ('true',)
# --------------------------------------------------------------------------------------------

class EncodingUnsupported(Exception):
    pass


def smt_sym(name, alias):
    return alias.get(name) or "|" + name.replace("|", "!").replace("\\", "!") + "|"


def enc_bv(t, al):
    k = t[0]
    if k == "c":
        return ("true" if t[2] else "false") if t[1] == "bool" else "(_ bv%d %d)" % (t[2], t[1])
    if k == "s":
        if t[2] is None:
            raise EncodingUnsupported("opaque symbol in formula: " + t[1])
        return smt_sym(t[1], al)
    if k == "op":
        f = {"add": "bvadd", "sub": "bvsub", "mul": "bvmul", "udiv": "bvudiv", "urem": "bvurem",
             "or": "bvor", "and": "bvand", "xor": "bvxor"}[t[1]]
        return "(%s %s %s)" % (f, enc_bv(t[3], al), enc_bv(t[4], al))
    if k == "cmp":
        a, b = enc_bv(t[2], al), enc_bv(t[3], al)
        if t[1] == "eq":
            return "(= %s %s)" % (a, b)
        if t[1] == "ne":
            return "(not (= %s %s))" % (a, b)
        if twidth(t[2]) == "bool":
            raise EncodingUnsupported("ordered compare on bool")
        return "(bv%s %s %s)" % (t[1], a, b)
    if k == "ovf":
        a, b, w = enc_bv(t[3], al), enc_bv(t[4], al), t[2]
        if t[1] == "add":
            return "(bvult (bvadd %s %s) %s)" % (a, b, a)
        if t[1] == "sub":
            return "(bvult %s %s)" % (a, b)
        return "(not (= ((_ extract %d %d) (bvmul ((_ zero_extend %d) %s) ((_ zero_extend %d) %s))) (_ bv0 %d)))" % (
            2 * w - 1, w, w, a, w, b, w)
    if k == "not":
        return "(not %s)" % enc_bv(t[1], al)
    if k == "zext":
        return "((_ zero_extend %d) %s)" % (t[2] - twidth(t[1]), enc_bv(t[1], al))
    if k == "trunc":
        return "((_ extract %d 0) %s)" % (t[2] - 1, enc_bv(t[1], al))
    if k == "ite":
        return "(ite %s %s %s)" % (enc_bv(t[1], al), enc_bv(t[2], al), enc_bv(t[3], al))
    raise EncodingUnsupported("term kind in formula: " + k)


_RW = {}      # certified rewrites (code term -> Int SMT text), only ever filled by certified_rewrites()


def enc_int(t, al):
    if t in _RW:
        return _RW[t]
    k = t[0]
    if k == "c":
        return ("true" if t[2] else "false") if t[1] == "bool" else str(t[2])
    if k == "s":
        if t[2] is None:
            raise EncodingUnsupported("opaque symbol in formula: " + t[1])
        return smt_sym(t[1], al)
    if k == "op":
        a, b, M = enc_int(t[3], al), enc_int(t[4], al), 1 << t[2]
        # exact wrap-around; written with ite so that the common no-wrap case needs no `mod` reasoning
        # (operands are in [0, M), so a+b < 2M and a-b > -M)
        if t[1] == "add":
            return "(ite (< (+ %s %s) %d) (+ %s %s) (- (+ %s %s) %d))" % (a, b, M, a, b, a, b, M)
        if t[1] == "sub":
            return "(ite (>= %s %s) (- %s %s) (+ (- %s %s) %d))" % (a, b, a, b, a, b, M)
        if t[1] == "mul":
            return "(ite (< (* %s %s) %d) (* %s %s) (mod (* %s %s) %d))" % (a, b, M, a, b, a, b, M)
        if t[1] == "udiv":
            return "(div %s %s)" % (a, b)
        if t[1] == "urem":
            return "(mod %s %s)" % (a, b)
        raise EncodingUnsupported("bitwise op in Int encoding")
    if k == "cmp":
        a, b = enc_int(t[2], al), enc_int(t[3], al)
        if t[1] == "ne":
            return "(not (= %s %s))" % (a, b)
        return "(%s %s %s)" % ({"eq": "=", "ult": "<", "ule": "<=", "ugt": ">", "uge": ">="}[t[1]], a, b)
    if k == "ovf":
        a, b, M = enc_int(t[3], al), enc_int(t[4], al), 1 << t[2]
        if t[1] == "add":
            return "(>= (+ %s %s) %d)" % (a, b, M)
        if t[1] == "sub":
            return "(< %s %s)" % (a, b)
        return "(>= (* %s %s) %d)" % (a, b, M)
    if k == "not":
        return "(not %s)" % enc_int(t[1], al)
    if k == "zext":
        return enc_int(t[1], al)
    if k == "trunc":
        a = enc_int(t[1], al)
        return "(ite (< %s %d) %s (mod %s %d))" % (a, 1 << t[2], a, a, 1 << t[2])
    if k == "ite":
        return "(ite %s %s %s)" % (enc_int(t[1], al), enc_int(t[2], al), enc_int(t[3], al))
    raise EncodingUnsupported("term kind in formula: " + k)


def nat_bits(n):
    k = n[0]
    if k == "N":
        return twidth(n[1])
    if k == "nc":
        return max(1, n[1].bit_length())
    if k == "nadd":
        return max(nat_bits(n[1]), nat_bits(n[2])) + 1
    if k == "nmul":
        return nat_bits(n[1]) + nat_bits(n[2])
    if k == "ndiv":
        return nat_bits(n[1])
    if k == "nmod":
        return max(nat_bits(n[1]), nat_bits(n[2]))
    raise EncodingUnsupported(k)


def form_bits(f):
    k = f[0]
    if k in ("nlt", "nle", "neq"):
        return max(nat_bits(f[1]), nat_bits(f[2]))
    if k in ("and", "or"):
        return max([form_bits(x) for x in f[1]] + [1])
    if k == "not":
        return form_bits(f[1])
    if k in ("imp", "iff"):
        return max(form_bits(f[1]), form_bits(f[2]))
    return 1


def enc_nat(n, enc, W, al):
    k = n[0]
    if k == "N":
        if enc == "int":
            return enc_int(n[1], al)
        w = twidth(n[1])
        return enc_bv(n[1], al) if w == W else "((_ zero_extend %d) %s)" % (W - w, enc_bv(n[1], al))
    if k == "nc":
        return str(n[1]) if enc == "int" else "(_ bv%d %d)" % (n[1], W)
    a, b = enc_nat(n[1], enc, W, al), enc_nat(n[2], enc, W, al)
    if enc == "int":
        return "(%s %s %s)" % ({"nadd": "+", "nmul": "*", "ndiv": "div", "nmod": "mod"}[k], a, b)
    return "(%s %s %s)" % ({"nadd": "bvadd", "nmul": "bvmul", "ndiv": "bvudiv", "nmod": "bvurem"}[k], a, b)


def enc_form(f, enc, W, al):
    k = f[0]
    if k == "true":
        return "true"
    if k == "rawint":
        if enc != "int":
            raise EncodingUnsupported("raw Int text")
        return f[1]
    if k == "b":
        return enc_int(f[1], al) if enc == "int" else enc_bv(f[1], al)
    if k in ("and", "or"):
        if not f[1]:
            return "true" if k == "and" else "false"
        if len(f[1]) == 1:
            return enc_form(f[1][0], enc, W, al)
        return "(%s %s)" % (k, " ".join(enc_form(x, enc, W, al) for x in f[1]))
    if k == "not":
        return "(not %s)" % enc_form(f[1], enc, W, al)
    if k == "imp":
        return "(=> %s %s)" % (enc_form(f[1], enc, W, al), enc_form(f[2], enc, W, al))
    if k == "iff":
        return "(= %s %s)" % (enc_form(f[1], enc, W, al), enc_form(f[2], enc, W, al))
    a, b = enc_nat(f[1], enc, W, al), enc_nat(f[2], enc, W, al)
    if enc == "int":
        return "(%s %s %s)" % ({"nlt": "<", "nle": "<=", "neq": "="}[k], a, b)
    return "(%s %s %s)" % ({"nlt": "bvult", "nle": "bvule", "neq": "="}[k], a, b)


def term_syms(t, acc):
    if isinstance(t, tuple):
        if t and t[0] == "s":
            acc.add((t[1], t[2]))
            return
        for x in t:
            term_syms(x, acc)
    elif isinstance(t, list):
        for x in t:
            term_syms(x, acc)


def make_smt(q, enc, inputs, al, with_model=False, rw=None):
    """q: dict(assume=[form], goal=form).  Emits: declarations, assumptions, (not goal), check-sat.
    rw: certified rewrites applied to the GOAL only (assumptions stay in their original form)."""
    global _RW
    forms = list(q["assume"]) + [q["goal"]]
    W = max(form_bits(f) for f in forms) + 1
    syms = set()
    term_syms(forms, syms)
    term_syms(q.get("extra_terms", []), syms)
    out = ["; query %s  encoding=%s  (negated goal: expect unsat)" % (q["id"], enc),
           "(set-option :produce-models true)" if with_model else "",
           "(set-logic %s)" % ("QF_NIA" if enc == "int" else "QF_BV")]
    names = []
    for name, w in sorted(syms, key=lambda x: x[0]):
        if w is None:
            raise EncodingUnsupported("opaque symbol " + name)
        sn = smt_sym(name, al)
        names.append(sn)
        if w == "bool":
            out.append("(declare-const %s Bool)" % sn)
        elif enc == "int":
            out.append("(declare-const %s Int)" % sn)
            mx = inputs.get(name, {}).get("max", (1 << w) - 1)
            out.append("(assert (and (<= 0 %s) (<= %s %d)))" % (sn, sn, mx))
        else:
            out.append("(declare-const %s (_ BitVec %d))" % (sn, w))
            mx = inputs.get(name, {}).get("max")
            if mx is not None:
                out.append("(assert (bvule %s (_ bv%d %d)))" % (sn, mx, w))
    for f in q["assume"]:
        out.append("(assert %s)" % enc_form(f, enc, W, al))
    _RW = rw or {}
    try:
        out.append("(assert (not %s))" % enc_form(q["goal"], enc, W, al))
    finally:
        _RW = {}
    out.append("(check-sat)")
    if with_model and names:
        out.append("(get-value (%s))" % " ".join(names))
    return "\n".join(x for x in out if x) + "\n"


# ---- concrete evaluation of the same terms (translator validation) ----

def ev(t, env):
    k = t[0]
    if k == "c":
        return t[2]
    if k == "s":
        return env[t[1]]
    if k == "op":
        a, b, M = ev(t[3], env), ev(t[4], env), 1 << t[2]
        n = t[1]
        if n in ("udiv", "urem") and b == 0:
            raise ZeroDivisionError
        return {"add": lambda: (a + b) % M, "sub": lambda: (a - b) % M, "mul": lambda: (a * b) % M,
                "udiv": lambda: a // b, "urem": lambda: a % b, "or": lambda: a | b, "and": lambda: a & b,
                "xor": lambda: a ^ b}[n]()
    if k == "cmp":
        a, b = ev(t[2], env), ev(t[3], env)
        return int({"eq": a == b, "ne": a != b, "ult": a < b, "ule": a <= b, "ugt": a > b, "uge": a >= b}[t[1]])
    if k == "ovf":
        a, b, M = ev(t[3], env), ev(t[4], env), 1 << t[2]
        return int({"add": a + b >= M, "sub": a < b, "mul": a * b >= M}[t[1]])
    if k == "not":
        return 1 - ev(t[1], env)
    if k == "zext":
        return ev(t[1], env)
    if k == "trunc":
        return ev(t[1], env) % (1 << t[2])
    if k == "ite":
        return ev(t[2], env) if ev(t[1], env) else ev(t[3], env)
    raise Unsupported("concrete eval of " + k)


def ev_nat(n, env):
    k = n[0]
    if k == "N":
        return ev(n[1], env)
    if k == "nc":
        return n[1]
    a, b = ev_nat(n[1], env), ev_nat(n[2], env)
    return {"nadd": lambda: a + b, "nmul": lambda: a * b, "ndiv": lambda: a // b, "nmod": lambda: a % b}[k]()


def ev_form(f, env):
    k = f[0]
    if k == "true":
        return True
    if k == "b":
        return bool(ev(f[1], env))
    if k == "and":
        return all(ev_form(x, env) for x in f[1])
    if k == "or":
        return any(ev_form(x, env) for x in f[1])
    if k == "not":
        return not ev_form(f[1], env)
    if k == "imp":
        return (not ev_form(f[1], env)) or ev_form(f[2], env)
    if k == "iff":
        return ev_form(f[1], env) == ev_form(f[2], env)
    a, b = ev_nat(f[1], env), ev_nat(f[2], env)
    return {"nlt": a < b, "nle": a <= b, "neq": a == b}[k]


# ---- solvers ----

def solver_cmds(timeout):
    z3 = shutil.which("z3-new") or shutil.which("z3") or "/usr/bin/z3"
    cmds = {"z3": [z3, "-smt2", "-T:%d" % timeout]}
    cv = shutil.which("cvc5")
    if cv:
        cmds["cvc5"] = [cv, "--lang=smt2", "--tlimit=%d" % (timeout * 1000)]
    return cmds


def run_solver(cmd, text, timeout):
    fd, path = tempfile.mkstemp(prefix="mirslice_q_", suffix=".smt2", dir="/tmp")
    t0 = time.time()
    try:
        with os.fdopen(fd, "w") as f:
            f.write(text)
        try:
            p = subprocess.run(cmd + [path], stdout=subprocess.PIPE, stderr=subprocess.STDOUT, text=True,
                               timeout=timeout + 10)
            out = p.stdout
        except subprocess.TimeoutExpired:
            out = "timeout"
    finally:
        os.unlink(path)
    dt = round(time.time() - t0, 2)
    lines = [l.strip() for l in out.splitlines() if l.strip()]
    first = lines[0] if lines else "noanswer"
    if first == "sat":
        return "sat", dt, out
    if any(l.startswith("(error") for l in lines):
        return "error", dt, out
    if first == "unsat":
        return "unsat", dt, out
    if first in ("unknown", "timeout") or "interrupted" in out or "timeout" in out:
        return "timeout" if dt >= timeout - 1 or "timeout" in out or "interrupted" in out else "unknown", dt, out
    return "error", dt, out

# --------------------------------------------------------------------------------------------
# 5. slice discovery
# --------------------------------------------------------------------------------------------

STATE_FIELD_RE = re.compile(r"\(\(\(\*(_\d+)\) as variant#\d+\)\.\d+: (u8|u16|u32|u64|u128|usize)\)")


def stable_fields(fn, consts):
    """coroutine-state scalar fields with exactly one store and no borrow anywhere in the function."""
    cands = {}
    for l in fn.text:
        for m in STATE_FIELD_RE.finditer(l):
            cands.setdefault(m.group(0), m.group(1))
    out = {}
    scratch = Eval(fn, consts)
    for txt, root in cands.items():
        stores, borrowed = [], False
        for b in fn.blocks.values():
            for ln, s in b.lines:
                if s.startswith(txt + " = "):
                    stores.append((b.n, ln))
                if ("&" + txt) in s or ("&mut " + txt) in s or ("raw const " + txt) in s or ("raw mut " + txt) in s:
                    borrowed = True
                if re.search(r"&(mut )?\(\*%s\)[;,) ]" % root, s):
                    borrowed = True
        if len(stores) == 1 and not borrowed:
            pl, _ = parse_place(txt, 0)
            out[scratch.resolve(pl)] = {"text": txt, "bb": stores[0][0], "line": stores[0][1]}
    return out


def edge_ok(lab, allow_switch):
    return lab in ("goto", "success", "return") or (allow_switch and (lab.isdigit() or lab == "otherwise"))


def back_chain(fn, end, allow_switch, need=None, limit=40):
    """maximal single-predecessor chain ending at `end`: [(bb, label_to_next)], earliest first."""
    chain, cur = [(end, None)], end
    while len(chain) < limit:
        preds = [(p, l) for (p, l) in fn.preds.get(cur, []) if not fn.blocks[p].cleanup]
        if len(preds) != 1 or not edge_ok(preds[0][1], allow_switch):
            break
        p, lab = preds[0]
        if any(p == c[0] for c in chain):
            break
        if not allow_switch and fn.blocks[p].lines[-1][1].startswith("switchInt"):
            break
        chain.insert(0, (p, lab))
        cur = p
        if need is not None and need <= {c[0] for c in chain}:
            break
    return chain


def forward_to(fn, start, pred, limit=5):
    """follow the unique normal edge from `start` until a block satisfying pred; returns [(bb,label)] after start"""
    out, cur = [], start
    for _ in range(limit):
        if pred(fn.blocks[cur]):
            return out
        nxt = [(l, t) for (l, t) in fn.blocks[cur].edges if l in ("goto", "success", "return")]
        if len(nxt) != 1:
            break
        out.append((cur, nxt[0][0], nxt[0][1]))
        cur = nxt[0][1]
    raise Unsupported("no straight-line path from bb%d to the expected sink" % start)


def blocks_with(fn, needle):
    return sorted(b.n for b in fn.blocks.values() if not b.cleanup and any(needle in s for _, s in b.lines))


def one_block(fn, needle, what):
    bs = blocks_with(fn, needle)
    if len(bs) != 1:
        raise Unsupported("expected exactly one block with %s (%r), found %s" % (what, needle, bs))
    return bs[0]


def join_chain(back, fwd):
    """back: [(bb,label_to_next)] ending with (anchor,None); fwd: [(bb,label,next)] starting at anchor"""
    if not fwd:
        return back
    chain = back[:-1]
    for (b, lab, nxt) in fwd:
        chain.append((b, lab))
    chain.append((fwd[-1][2], None))
    return chain


def parse_struct_fields(src, name):
    m = re.search(r"\bstruct %s\b" % name, src)
    if not m:
        raise Unsupported("struct %s not found in source" % name)
    i = src.index("{", m.end())
    # generics may not contain '{' for the structs we look at
    depth, j = 0, i
    while True:
        if src[j] == "{":
            depth += 1
        elif src[j] == "}":
            depth -= 1
            if depth == 0:
                break
        j += 1
    body = re.sub(r"//[^\n]*", "", src[i + 1:j])
    body = re.sub(r"#\[[^\]]*\]", "", body)
    fields, depth, cur = [], 0, ""
    for c in body:
        if c in "<([":
            depth += 1
        elif c in ">)]":
            depth -= 1
        if c == "," and depth == 0:
            fields.append(cur)
            cur = ""
        else:
            cur += c
    fields.append(cur)
    names = []
    for f in fields:
        mm = re.match(r"\s*(?:pub(?:\([^)]*\))?\s+)?(\w+)\s*:", f)
        if mm:
            names.append(mm.group(1))
    return names


def parse_consts(src):
    out = {}
    for m in re.finditer(r"^\s*(?:pub(?:\([^)]*\))?\s+)?const (\w+): (u8|u16|u32|u64) = ([0-9a-fA-Fxob_]+);", src, re.M):
        try:
            out[m.group(1)] = (INT_W[m.group(2)], int(m.group(3).replace("_", ""), 0))
        except ValueError:
            pass
    return out


def debug_path(fn, consts, name, ty_pred):
    hits = [pl for (n, pl) in fn.debug if n == name and (
        (pl.startswith("(") and ty_pred(pl)) or (re.match(r"^_\d+$", pl) and ty_pred("(%s: %s)" % (pl, fn.locals.get(pl, "?")))))]
    if len(hits) != 1:
        raise Unsupported("debug variable %s: expected one matching place, found %d" % (name, len(hits)))
    pl, _ = parse_place(hits[0], 0)
    return Eval(fn, consts).resolve(pl)


def from_nanos_arg(t, what):
    if t[0] == "agg" and t[1] == "Duration::from_nanos":
        return t[2][0][1]
    raise Unsupported("%s is not built by Duration::from_nanos" % what)


def N(t):
    return ("N", t)


def AND(*xs):
    return ("and", list(xs))


def sym64(name):
    return ("s", name, 64)


def obligations(events, pre, kinds):
    """goal: every assert of the given kinds holds, assuming pre, the path and all EARLIER asserts."""
    goals, prior = [], list(pre)
    for e in events:
        if e["kind"] == "path":
            prior.append(("b", e["cond"]))
        else:
            if kinds is None or e["akind"] in kinds:
                goals.append(("imp", ("and", list(prior)), ("b", e["cond"])))
            prior.append(("b", e["cond"]))
    return ("and", goals), len(goals)


def all_events(events):
    return [("b", e["cond"]) for e in events]


def run_concrete(events, outputs, env):
    npath = 0
    for e in events:
        v = ev(e["cond"], env)
        if e["kind"] == "path":
            if not v:
                return ("err", npath)
            npath += 1
        elif not v:
            return ("panic", e["akind"])
    return ("ok", {k: ev(t, env) for k, t in outputs.items()})


def vectors(seed, n_rand, dims, bounds):
    rnd = random.Random(seed)
    out = []
    B = bounds
    k = 0
    for a in B:
        for b in B:
            v = [a, b] + [B[(k + d) % len(B)] for d in range(dims - 2)]
            out.append(tuple(v))
            k += 1
    for _ in range(n_rand):
        out.append(tuple(rnd.choice([rnd.getrandbits(64), rnd.getrandbits(32), rnd.getrandbits(33), rnd.getrandbits(16)])
                         for _ in range(dims)))
    return out

# --------------------------------------------------------------------------------------------
# 6. the two analyses (slice -> queries)
# --------------------------------------------------------------------------------------------

def lines_json(e):
    return [{"mir_line": ln, "text": t} for ln, t in e.lines]


def analyse_tx_rx_dc(mir_lines, src, consts, seed, report):
    fn = find_function(mir_lines, "tx_rx_dc")
    stable = stable_fields(fn, consts)
    anchor = one_block(fn, " = CycleInfo {", "the CycleInfo aggregate")
    chain = back_chain(fn, anchor, allow_switch=False)
    e = Eval(fn, consts, set(stable))
    e.run_chain(chain)
    # ---- roles
    hasdc = parse_struct_fields(src, "HasDc")
    grp = parse_struct_fields(src, "SubDeviceGroup")
    if "dc_conf" not in grp or "sync0_period" not in hasdc or "sync0_shift" not in hasdc:
        raise Unsupported("HasDc / SubDeviceGroup field layout changed: %s %s" % (hasdc, grp))
    selfp = pretty_path(debug_path(fn, consts, "self", lambda pl: "variant#" in pl))
    timep = pretty_path(debug_path(fn, consts, "time", lambda pl: pl.endswith(": u64)")))
    pname = "*(%s).%d.%d" % (selfp, grp.index("dc_conf"), hasdc.index("sync0_period"))
    sname = "*(%s).%d.%d" % (selfp, grp.index("dc_conf"), hasdc.index("sync0_shift"))
    for nm in (pname, sname):
        if nm in e.inputs and (e.inputs[nm]["width"] != 64 or "HasDc" not in str([k for k in e.mem if pretty_path(k) == nm])):
            raise Unsupported("HasDc field load has unexpected type: " + nm)
    T, P, S = sym64(timep), sym64(pname), sym64(sname)
    alias = {timep: "time", pname: "period", sname: "shift"}
    for nm in (timep, pname, sname):
        e.inputs.setdefault(nm, {"width": 64, "desc": "role symbol not read by the slice"})
    # ---- outputs
    cis = [a for a in e.aggs if a["term"][1].split("::")[-1] == "CycleInfo"]
    if len(cis) != 1:
        raise Unsupported("expected one CycleInfo aggregate in the slice")
    f = dict(cis[0]["term"][2])
    if sorted(f) != ["cycle_start_offset", "dc_system_time", "next_cycle_wait"]:
        raise Unsupported("CycleInfo fields changed: %s" % sorted(f))
    off = from_nanos_arg(f["cycle_start_offset"], "cycle_start_offset")
    wait = from_nanos_arg(f["next_cycle_wait"], "next_cycle_wait")
    dcs = f["dc_system_time"]
    for nm, t in (("offset", off), ("wait", wait), ("dc_system_time", dcs)):
        if twidth(t) != 64:
            raise Unsupported("%s is not a u64 expression" % nm)
    # aggregate flows into TxRxResponse.extra and Ok(..)
    flows = any(a["term"][1].startswith("TxRxResponse") and dict(a["term"][2]).get("extra") == cis[0]["term"] for a in e.aggs)
    okw = any(a["term"][1].endswith("::Ok") and a["term"][2] and a["term"][2][0][1][0] == "agg"
              and a["term"][2][0][1][1].startswith("TxRxResponse") for a in e.aggs)
    if not (flows and okw):
        raise Unsupported("CycleInfo aggregate does not flow into Ok(TxRxResponse { extra: .. })")
    kinds = [x["akind"] for x in e.events if x["kind"] == "assert"]
    if any(x["kind"] == "path" for x in e.events):
        raise Unsupported("unexpected branch inside the tx_rx_dc slice")
    pre = [("nle", ("nc", 1), N(P)), ("nlt", N(P), ("nc", 1 << 32)), ("nle", N(S), ("nc", 1 << 33))]
    pre_txt = "1 <= period < 2^32, shift <= 2^33, time any u64"
    allok = all_events(e.events)
    g_off = ("b", mk_cmp("eq", off, ("op", "urem", 64, T, P)))
    g_wait = ("neq", ("nadd", N(wait), N(off)), ("nadd", N(P), N(S)))
    qs = []

    def Q(i, name, assume, goal, note=""):
        qs.append({"id": i, "name": name, "fn": "tx_rx_dc", "assume": assume, "goal": goal, "pre": pre_txt, "note": note})
    Q("Q1", "offset == time mod period", pre + allok, g_off)
    Q("Q2", "0 <= offset < period", pre + allok, AND(("nle", ("nc", 0), N(off)), ("nlt", N(off), N(P))))
    g3, n3 = obligations(e.events, pre, {"sub"})
    Q("Q3", "no overflow on `period - offset`", [], g3, "%d Sub overflow assert(s) in slice" % n3)
    g4, n4 = obligations(e.events, pre, {"add", "mul", "other"})
    Q("Q4", "no overflow on `(period - offset) + shift`; wait == period - offset + shift", [],
      AND(g4, ("imp", ("and", pre + allok), g_wait)), "%d Add/Mul/other assert(s) in slice" % n4)
    g5, n5 = obligations(e.events, pre, {"div0"})
    Q("Q5", "division-by-zero assert cannot fail (period >= 1)", [], g5, "%d div-by-zero assert(s) in slice" % n5)
    Q("Q6", "CycleInfo fields are exactly {time, Duration(offset), Duration(period-offset+shift)}", pre + allok,
      AND(("b", mk_cmp("eq", dcs, T)), g_off, g_wait),
      "structural: aggregate has exactly the 3 fields, both Durations are Duration::from_nanos(..), aggregate flows into Ok(TxRxResponse{extra})")
    if n5 == 0:
        raise Unsupported("no division/remainder check in the tx_rx_dc slice (no Rem/Div?)")
    # witness: shift bound is necessary
    pre_nos = pre[:2]
    gw, _ = obligations(e.events, pre_nos, None)
    ws = [{"id": "W1", "name": "tx_rx_dc: `+ shift` overflow is reachable when shift is unbounded (configure_dc_sync does not range-check sync0_shift)",
           "fn": "tx_rx_dc", "assume": [], "goal": gw, "pre": "1 <= period < 2^32, shift any u64", "witness": True}]
    # ---- translator validation
    B = [0, 1, (1 << 32) - 1, 1 << 32, 1 << 63, M64 - 1]
    vecs = vectors(seed, 14, 3, B)
    bad = []
    for (t_, p_, s_) in vecs:
        env = {timep: t_, pname: p_, sname: s_}
        try:
            got = run_concrete(e.events, {"dc_system_time": dcs, "cycle_start_offset": off, "next_cycle_wait": wait}, env)
        except KeyError as ex:
            raise Unsupported("slice depends on an input that has no role: %s" % ex)
        exp = ref_tx_rx_dc(t_, p_, s_)
        if got != exp:
            bad.append({"time": t_, "period": p_, "shift": s_, "slice": str(got), "reference": str(exp)})
        elif got[0] == "ok" and 1 <= p_ < (1 << 32) and s_ <= (1 << 33):
            for q in qs:
                if not (ev_form(q["goal"], env) or not all(ev_form(a, env) for a in q["assume"])):
                    bad.append({"time": t_, "period": p_, "shift": s_, "query_false_on_vector": q["id"]})
    report["slices"].append({"function": fn.header.split("(")[0][3:], "slice": "cycle arithmetic", "blocks": e.bbs,
                             "mir": lines_json(e), "asserts": kinds,
                             "inputs": {alias.get(k, k): v for k, v in e.inputs.items()},
                             "outputs": {"cycle_start_offset": str(off), "next_cycle_wait": str(wait), "dc_system_time": str(dcs)}})
    report["axioms"].update(e.axioms_used)
    report["validation"].append({"function": "tx_rx_dc", "vectors": len(vecs), "mismatches": bad})
    return qs, ws, alias, e.inputs, bad


def ref_tx_rx_dc(time_, period, shift):
    """hand-written from src/subdevice_group/mod.rs (tail of tx_rx_dc), overflow-checks on"""
    if period == 0:
        return ("panic", "div0")
    cycle_start_offset = time_ % period
    if period < cycle_start_offset:
        return ("panic", "sub")
    a = period - cycle_start_offset
    time_to_next_iter = a + shift
    if time_to_next_iter >= M64:
        return ("panic", "add")
    return ("ok", {"dc_system_time": time_, "cycle_start_offset": cycle_start_offset, "next_cycle_wait": time_to_next_iter})


def ref_configure(sys_, np_, nd_, ns_):
    """hand-written from configure_dc_sync: u32::try_from(as_nanos)?, (sys + delay) / period * period"""
    if np_ >= 1 << 32:
        return ("err", 0)
    if nd_ >= 1 << 32:
        return ("err", 1)
    x = sys_ + nd_
    if x >= M64:
        return ("panic", "add")
    if np_ == 0:
        return ("panic", "div0")
    st = (x // np_) * np_
    if st >= M64:
        return ("panic", "mul")
    return ("ok", {"start_time": st, "cycle_time": np_, "hasdc_period": np_, "hasdc_shift": ns_ % M64})

def parse_enum_variants(src, name):
    m = re.search(r"\benum %s\b[^{]*\{" % name, src)
    if not m:
        raise Unsupported("enum %s not found" % name)
    depth, j, out, cur = 1, m.end(), [], ""
    while depth > 0:
        c = src[j]
        if c == "{":
            depth += 1
        elif c == "}":
            depth -= 1
        if depth == 1 and c == "," or depth == 0:
            out.append(cur)
            cur = ""
        elif depth == 1 and c != "}":
            cur += c
        j += 1
    names = []
    for v in out:
        v = re.sub(r"//[^\n]*", "", v)
        v = re.sub(r"#\[[^\]]*\]", "", v)
        mm = re.match(r"\s*(\w+)", v)
        if mm:
            names.append(mm.group(1))
    return names


def enum_paths(fn, start=0, limit=32):
    paths = []

    def rec(b, acc, seen):
        if len(paths) > limit:
            raise Unsupported("too many paths")
        blk = fn.blocks[b]
        if blk.lines[-1][1] == "return;":
            paths.append(acc + [(b, None)])
            return
        succ = [(l, t) for (l, t) in blk.edges if l != "unwind"]
        if not succ or b in seen:
            raise Unsupported("cyclic or dead-end CFG in closure")
        for l, t in succ:
            rec(t, acc + [(b, l)], seen | {b})
    rec(start, [], frozenset())
    return paths


def analyse_filter_closure(mir_lines, outer, consts, variants, report):
    """all paths of configure_dc_sync::{closure#0}::{closure#0} (the `.filter(..)` predicate), symbolically"""
    fn = find_function(mir_lines, "configure_dc_sync", "::{closure#0}::{closure#0}(")
    m = re.search(r"\{closure@([^}]*)\}", fn.header)
    if not m:
        raise Unsupported("filter closure header not recognised")
    ctag = "{closure@%s}" % m.group(1)
    # structural: the loop iterates a Filter<.., that closure>, and every DC register write goes to the loop variable
    nexts = [t for b in outer.blocks.values() for _, t in b.lines if " as Iterator>::next(" in t and "Filter<" in t]
    if len(nexts) != 1 or ctag not in nexts[0]:
        raise Unsupported("the configure loop does not iterate a Filter over the expected closure")
    nres = nexts[0].split(" = ")[0]
    subdev = [pl for (n, pl) in outer.debug if n == "subdevice"]
    if len(subdev) != 1:
        raise Unsupported("loop variable `subdevice` not found")
    stores = [t for b in outer.blocks.values() for _, t in b.lines if t.startswith(subdev[0] + " = ")]
    if len(stores) != 1 or stores[0] != "%s = move ((%s as Some).0: %s;" % (subdev[0], nres, subdev[0].rsplit(": ", 1)[1]):
        raise Unsupported("loop variable is not exactly the Some(..) payload of Filter::next: %s" % stores)
    writes = [t for b in outer.blocks.values() for _, t in b.lines if "::write::<RegisterAddress>(" in t]
    for t in writes:
        blk = [b for b in outer.blocks.values() if any(x == t for _, x in b.lines)][0]
        arg0 = re.search(r"write::<RegisterAddress>\(move (_\d+),", t).group(1)
        if not any(x == "%s = &%s;" % (arg0, subdev[0]) for _, x in blk.lines):
            raise Unsupported("a register write does not target the loop variable: " + t[:100])
    goals, inputs, lines, npaths = [], {}, [], 0
    for path in enum_paths(fn):
        e = Eval(fn, consts)
        e.run_chain(path)
        npaths += 1
        res = e.env.get("_0")
        if res is None or twidth(res) != "bool":
            raise Unsupported("closure result is not a bool expression")
        anyc = [c for c in e.calls if c["func"].endswith("DcSupport::any")]
        dcs = [c for c in e.calls if c["func"].endswith("::dc_sync")]
        sup = [c for c in e.calls if c["func"].endswith("::dc_support")]
        if len(anyc) != 1 or len(sup) != 1 or len(dcs) > 1:
            raise Unsupported("filter closure does not call dc_support().any() exactly once")
        if anyc[0]["args"][0][0] != "ref" or anyc[0]["args"][0][1] != sup[0]["dest"]:
            raise Unsupported("any() is not applied to the dc_support() result")
        a = anyc[0]["result"]
        d = e.discr(dcs[0]["result"]) if dcs else ("s", "dc_sync_not_called@discr", 64)
        inputs.update(e.inputs)
        inputs.setdefault(d[1], {"width": 64, "desc": "discriminant"})
        spec = AND(("b", a), ("not", ("b", mk_cmp("eq", d, ("c", 64, variants.index("Disabled"))))))
        if not dcs:
            spec = AND(("b", a), ("b", ("c", "bool", 0)))      # dc_sync() not consulted on this path: only sound if any()==false
        pc = [("b", x["cond"]) for x in e.events if x["kind"] == "path"]
        if any(x["kind"] == "assert" for x in e.events):
            raise Unsupported("panic edge in filter closure")
        goals.append(("imp", ("and", pc), ("iff", ("b", res), spec)))
        for l in e.lines:
            if l not in lines:
                lines.append(l)
    report["slices"].append({"function": fn.header.split("(")[0][3:], "slice": "filter predicate (all %d paths)" % npaths,
                             "blocks": sorted(fn.blocks), "mir": [{"mir_line": a_, "text": b_} for a_, b_ in sorted(lines)], "asserts": []})
    note = ("all %d paths of the filter closure; structural: the loop iterates Filter<.., %s>, its variable is the Some payload of "
            "next(), all %d RegisterAddress writes in the function target that variable" % (npaths, ctag, len(writes)))
    return ("and", goals), inputs, note


def reach(fn, start, stop):
    seen, todo = set(), [start]
    while todo:
        b = todo.pop()
        if b in seen or b == stop:
            continue
        seen.add(b)
        for l, t in fn.blocks[b].edges:
            if l != "unwind" and not fn.blocks[t].cleanup:
                todo.append(t)
    return seen


def analyse_flags(fn, consts, variants, sset, sink, report):
    fl = [pl for (n, pl) in fn.debug if n == "flags"]
    if len(fl) != 1 or not re.match(r"^_\d+$", fl[0]):
        raise Unsupported("debug variable `flags` not a plain local")
    fl = fl[0]
    fblocks = sorted(b.n for b in fn.blocks.values() if any(t.startswith(fl + " = ") for _, t in b.lines))
    # the switch on dc_sync()'s discriminant that dominates them
    sw = []
    for b in fn.blocks.values():
        t = b.lines[-1][1] if b.lines else ""
        m = re.match(r"^switchInt\(move (_\d+)\)", t)
        if m and not b.cleanup:
            d = [x for _, x in b.lines if re.match(r"^%s = discriminant\((_\d+)\);$" % m.group(1), x)]
            if d:
                src_local = re.match(r"^.* = discriminant\((_\d+)\);$", d[0]).group(1)
                defs = [x for bb in fn.blocks.values() for _, x in bb.lines if x.startswith(src_local + " = ")]
                if len(defs) == 1 and "::dc_sync(" in defs[0]:
                    sw.append(b)
    if len(sw) != 1:
        raise Unsupported("expected one switch on dc_sync() in configure_dc_sync, found %d" % len(sw))
    sw = sw[0]
    sides = {}
    for lab, t in sw.edges:
        if lab == "unwind":
            continue
        names = variants[int(lab):int(lab) + 1] if lab.isdigit() else [v for i, v in enumerate(variants)
                                                                       if str(i) not in [l for l, _ in sw.edges]]
        sides[lab] = {"target": t, "variants": names, "reach": reach(fn, t, sw.n)}
    vals, lines = {}, []
    for F in fblocks:
        e = Eval(fn, consts, sset)
        e.run_chain([(F, None)])
        lines += e.lines
        v = e.env.get(fl)
        if v is None or v[0] != "c" or v[1] != 8:
            raise Unsupported("flags value in bb%d is not a u8 constant expression" % F)
        labs = [l for l, sd in sides.items() if F in sd["reach"]]
        if len(labs) != 1:
            raise Unsupported("flags block bb%d is not on exactly one side of the dc_sync() switch" % F)
        if labs[0] in vals:
            raise Unsupported("two flag assignments on one side of the dc_sync() switch")
        vals[labs[0]] = v
    goal, desc = [], []
    for lab, sd in sides.items():
        if lab not in vals:
            raise Unsupported("no flags assignment for DcSync variants %s" % sd["variants"])
        want = 0x07 if sd["variants"] == ["Sync01"] else 0x03
        if "Sync01" in sd["variants"] and sd["variants"] != ["Sync01"]:
            raise Unsupported("Sync01 shares a branch with another variant")
        goal.append(("b", mk_cmp("eq", vals[lab], ("c", 8, want))))
        desc.append("%s -> %#04x (expected %#04x)" % ("|".join(sd["variants"]), vals[lab][2], want))
    # SYNC1 cycle time written only on the Sync01 side
    s1 = one_block(fn, "RegisterAddress::DcSync1CycleTime", "the DcSync1CycleTime register constant")
    for lab, sd in sides.items():
        if (s1 in sd["reach"]) != (sd["variants"] == ["Sync01"]):
            goal.append(("b", ("c", "bool", 0)))
            desc.append("DcSync1CycleTime write reachable on side %s" % sd["variants"])
    # the two DcSyncActive writes: first 0, then `flags`
    act = blocks_with(fn, "RegisterAddress::DcSyncActive")
    sent = []
    for a in act:
        e = Eval(fn, consts, sset)
        e.run_chain(join_chain([(a, None)], forward_to(fn, a, lambda b: any("WrappedWrite::send::<" in s for _, s in b.lines))))
        lines += e.lines
        sent.append(sink(e, "DcSyncActive"))
    zero = [v for v in sent if v == ("c", 8, 0)]
    fsym = [v for v in sent if v[0] == "s" and v[1] == fl]
    if len(sent) != 2 or len(zero) != 1 or len(fsym) != 1:
        goal.append(("b", ("c", "bool", 0)))
        desc.append("DcSyncActive writes are not exactly {0u8, flags}: %s" % (sent,))
    first = blocks_with(fn, "const 0_u8) -> [return")
    if not (first and all(f in reach(fn, first[0], -1) for f in fblocks) and first[0] not in reach(fn, sw.n, first[0])):
        pass    # ordering is informational only
    report["slices"].append({"function": fn.header.split("(")[0][3:], "slice": "activation flags", "blocks": fblocks + act,
                             "mir": [{"mir_line": a_, "text": b_} for a_, b_ in lines], "asserts": []})
    return ("and", goal), "; ".join(desc) + "; switch on dc_sync() at bb%d" % sw.n


def analyse_no_reference(fn, consts, sset, report):
    nr = one_block(fn, "DistributedClockError::NoReference", "the NoReference error value")
    callb = one_block(fn, "::dc_ref_address(", "the dc_ref_address() call")
    chain = back_chain(fn, nr, allow_switch=True, need={callb})
    if callb not in [c[0] for c in chain]:
        raise Unsupported("NoReference block is not on a single-predecessor chain from dc_ref_address()")
    chain = chain[[c[0] for c in chain].index(callb):]
    e = Eval(fn, consts, sset, tag="~n")
    e.run_chain(chain)
    ref = [c for c in e.calls if c["func"].endswith("::dc_ref_address")]
    conv = [c for c in e.calls if re.search(r"DistributedClockError as Into<error::Error>>::into$|From<(error::)?DistributedClockError>>::from$", c["func"])]
    if len(ref) != 1 or len(conv) != 1 or conv[0]["args"][0] != ("agg", "DistributedClockError::NoReference", ()):
        raise Unsupported("NoReference is not converted into error::Error in the expected way")
    if any(c for c in e.calls if c not in ref and c not in conv):
        raise Unsupported("unexpected call before the NoReference return: %s" % [c["func"] for c in e.calls])
    errl = conv[0]["dest"]
    if errl[0][0] != "local" or errl[1]:
        raise Unsupported("error value not in a local")
    nxt = [t for (l, t) in fn.blocks[nr].edges if l == "return"]
    m = None
    for _, t in fn.blocks[nxt[0]].lines if nxt else []:
        m = m or re.match(r"^(_\d+) = Result::<.*>::Err\(move %s\);$" % errl[0][1], t)
    if not m:
        raise Unsupported("NoReference error is not wrapped into Result::Err")
    R = m.group(1)
    rd = [b.n for b in fn.blocks.values() if any(re.match(r"^_0 = Poll::<.*>::Ready\(move %s\);$" % R, t) for _, t in b.lines)]
    if len(rd) != 1:
        raise Unsupported("no unique `_0 = Poll::Ready(move %s)`" % R)
    rs = reach(fn, nxt[0], -1)
    if rd[0] not in rs:
        raise Unsupported("Poll::Ready not reachable from the NoReference branch")
    for b in rs:
        for _, t in fn.blocks[b].lines:
            if (t.startswith(R + " = ") and b != nxt[0]) or "WrappedWrite::send" in t or "register_read" in t or "::write::<" in t:
                raise Unsupported("NoReference branch does more than returning the error: bb%d %s" % (b, t[:80]))
    d = e.discr(ref[0]["result"])
    pc = [("b", x["cond"]) for x in e.events if x["kind"] == "path"]
    report["slices"].append({"function": fn.header.split("(")[0][3:], "slice": "NoReference rejection", "blocks": e.bbs,
                             "mir": lines_json(e), "asserts": []})
    note = ("structural: NoReference -> Into<Error> -> Result::Err -> %s -> Poll::Ready(%s) with no register access on the way "
            "(blocks reachable: %d); Option::None has discriminant 0" % (R, R, len(rs)))
    return ("iff", ("and", pc), ("b", mk_cmp("eq", d, ("c", 64, 0)))), e.inputs, note


def analyse_configure(mir_lines, src, consts, seed, report):
    fn = find_function(mir_lines, "configure_dc_sync")
    stable = stable_fields(fn, consts)
    sset = set(stable)
    DUR = lambda pl: pl.endswith(": core::time::Duration)")
    U64 = lambda pl: pl.endswith(": u64)")
    p_dur = {n: debug_path(fn, consts, n, DUR) for n in ("sync0_period", "start_delay", "sync0_shift")}
    p_u64 = {n: debug_path(fn, consts, n, U64) for n in ("sync0_period", "first_pulse_delay", "system_time", "start_time")}
    for n, p in p_u64.items():
        if p not in stable:
            raise Unsupported("coroutine field of `%s` is not single-store/never-borrowed; cannot link slices" % n)
    # ---- slice B: start time arithmetic up to the DcSyncStartTime write
    anchor = one_block(fn, "RegisterAddress::DcSyncStartTime", "the DcSyncStartTime register constant")
    back = back_chain(fn, anchor, allow_switch=False)
    fwd = forward_to(fn, anchor, lambda b: any("WrappedWrite::send::<" in s for _, s in b.lines))
    chain_b = join_chain(back, fwd)
    # ---- slice A: the chain containing the (single) stores of system_time / sync0_period / first_pulse_delay
    store_bbs = {stable[p_u64[n]]["bb"] for n in ("sync0_period", "first_pulse_delay", "system_time")}
    chain_a = None
    for end in sorted(store_bbs):
        c = back_chain(fn, end, allow_switch=True, need=store_bbs)
        if store_bbs <= {x[0] for x in c}:
            chain_a = c
            break
    if chain_a is None:
        raise Unsupported("the stores of system_time/sync0_period/first_pulse_delay are not on one single-predecessor chain")
    ea = Eval(fn, consts, sset)
    ea.run_chain(chain_a)
    carried = {k: v for k, v in ea.mem.items() if k in sset}
    eb = Eval(fn, consts, sset, mem=carried, tag="~b")
    eb.run_chain(chain_b)
    events = ea.events + eb.events
    inputs = dict(ea.inputs)
    inputs.update(eb.inputs)
    # ---- roles
    if fn.state_local is None:
        raise Unsupported("coroutine state pointer local not identified")

    def nanos(n, tag):
        return ("s", "as_nanos(%s%s)" % (pretty_path(p_dur[n]), tag), 128)
    NP, ND, NS = nanos("sync0_period", ""), nanos("start_delay", ""), nanos("sync0_shift", "~d")
    for t in (NP, ND, NS):
        inputs.setdefault(t[1], {"width": 128, "desc": "role symbol not read by the slice", "max": AS_NANOS_MAX})
    SYS = carried.get(p_u64["system_time"])
    P_t, D_t = carried.get(p_u64["sync0_period"]), carried.get(p_u64["first_pulse_delay"])
    if SYS is None or P_t is None or D_t is None:
        raise Unsupported("range-check slice did not produce system_time / sync0_period / first_pulse_delay")
    if SYS[0] != "s" or SYS[2] != 64:
        raise Unsupported("system_time is not a plain u64 input of the slice: %r" % (SYS,))
    alias = {SYS[1]: "sys_time", NP[1]: "period_nanos", ND[1]: "delay_nanos", NS[1]: "shift_nanos"}
    start = eb.mem.get(p_u64["start_time"])
    if start is None or twidth(start) != 64:
        raise Unsupported("start_time is not stored by the start-time slice")
    # sink: write(.., RegisterAddress::DcSyncStartTime) ... send(_, _, value)
    def sink(e, reg):
        wr = [c for c in e.calls if "::write::<" in c["func"] and len(c["args"]) == 2 and c["args"][1][0] == "agg"
              and c["args"][1][1] == "RegisterAddress::" + reg]
        sd = [c for c in e.calls if "WrappedWrite::send::<" in c["func"]]
        if len(wr) != 1 or len(sd) != 1 or len(sd[0]["args"]) != 3:
            raise Unsupported("register write pattern for %s not recognised" % reg)
        cur, hops = wr[0]["result"], 0
        while sd[0]["args"][0] != cur and hops < 3:
            nxt = [c for c in e.calls if c["args"] and c["args"][0] == cur and c is not sd[0]]
            if len(nxt) != 1:
                raise Unsupported("send() for %s is not fed by the write() builder" % reg)
            cur, hops = nxt[0]["result"], hops + 1
        if sd[0]["args"][0] != cur:
            raise Unsupported("send() for %s is not fed by the write() builder" % reg)
        return sd[0]["args"][2]
    sent_start = sink(eb, "DcSyncStartTime")
    # ---- slice C: cycle time write;  slice D: HasDc aggregate
    carried_b = {k: v for k, v in eb.mem.items() if k in sset}
    anchor_c = one_block(fn, "RegisterAddress::DcSync0CycleTime", "the DcSync0CycleTime register constant")
    chain_c = join_chain(back_chain(fn, anchor_c, allow_switch=False, limit=1),
                         forward_to(fn, anchor_c, lambda b: any("WrappedWrite::send::<" in s for _, s in b.lines)))
    ec = Eval(fn, consts, sset, mem=carried_b, tag="~c")
    ec.run_chain(chain_c)
    sent_cycle = sink(ec, "DcSync0CycleTime")
    anchor_d = one_block(fn, " = HasDc {", "the HasDc aggregate")
    ed = Eval(fn, consts, sset, mem=carried_b, tag="~d")
    ed.run_chain(back_chain(fn, anchor_d, allow_switch=False))
    hd = [a for a in ed.aggs if a["term"][1].split("::")[-1] == "HasDc"]
    if len(hd) != 1:
        raise Unsupported("expected one HasDc aggregate")
    hf = dict(hd[0]["term"][2])
    if sorted(hf) != ["reference", "sync0_period", "sync0_shift"]:
        raise Unsupported("HasDc fields changed")
    inputs.update({k: v for k, v in ec.inputs.items() if k not in inputs})
    inputs.update({k: v for k, v in ed.inputs.items() if k not in inputs})
    for nm, t in (("cycle time", sent_cycle), ("HasDc.sync0_period", hf["sync0_period"]), ("HasDc.sync0_shift", hf["sync0_shift"]),
                  ("sent start time", sent_start)):
        if twidth(t) != 64:
            raise Unsupported("%s is not a u64 expression" % nm)
    # ---- structural part of Q11: error edges of the range checks lead to `return Err`
    struct = []
    paths = [x for x in ea.events if x["kind"] == "path"]
    st_p = [s for s in ea.stores if s["path"] == p_u64["sync0_period"]]
    st_d = [s for s in ea.stores if s["path"] == p_u64["first_pulse_delay"]]
    if len(st_p) != 1 or len(st_d) != 1:
        raise Unsupported("range-check slice stores sync0_period/first_pulse_delay more than once")
    cond_p = [("b", x["cond"]) for x in ea.events[:st_p[0]["nevents"]] if x["kind"] == "path"]
    cond_d = [("b", x["cond"]) for x in ea.events[:st_d[0]["nevents"]] if x["kind"] == "path"]
    if any(x["kind"] == "assert" for x in ea.events):
        raise Unsupported("unexpected panic edge inside the range-check slice")
    err_ok = True
    for x in paths:
        b = fn.blocks[x["bb"]]
        others = [t for (l, t) in b.edges if l != x["edge"] and l != "otherwise"]
        ok = False
        for t in others:
            term = fn.blocks[t].lines[-1][1]
            m = re.match(r"^(_\d+) = <Result<.*> as FromResidual<.*>>::from_residual\(", term)
            if m and any(re.match(r"^_0 = Poll::<.*>::Ready\(move %s\);$" % m.group(1), s)
                         for bb in fn.blocks.values() for _, s in bb.lines):
                ok = True
        struct.append({"switch_bb": x["bb"], "taken_edge": x["edge"], "other_edge_returns_Err_via_from_residual": ok})
        err_ok = err_ok and ok
    if not err_ok:
        raise Unsupported("a failing range check does not lead to `return Err(..)` via FromResidual: %s" % struct)
    # ---- Q13: device selection = the filter closure; Q14: activation flags per mode
    variants = parse_enum_variants(src, "DcSync")
    if variants != ["Disabled", "Sync0", "Sync01"]:
        raise Unsupported("enum DcSync changed: %s" % variants)
    sel_goal, sel_inputs, sel_note = analyse_filter_closure(mir_lines, fn, consts, variants, report)
    inputs.update({k: v for k, v in sel_inputs.items() if k not in inputs})
    flags_goal, flags_note = analyse_flags(fn, consts, variants, sset, sink, report)
    nr_goal, nr_inputs, nr_note = analyse_no_reference(fn, consts, sset, report)
    inputs.update({k: v for k, v in nr_inputs.items() if k not in inputs})
    # destructuring: the Duration variables are exactly the DcConfiguration fields of the same name
    dcf = parse_struct_fields(src, "DcConfiguration")
    dcl = [pl for (n, pl) in fn.debug if n == "dc_conf" and re.match(r"^_\d+$", pl)]
    for n in ("start_delay", "sync0_period", "sync0_shift"):
        pls = [pl for (nn, pl) in fn.debug if nn == n and (pl.endswith(": core::time::Duration)") or fn.locals.get(pl) == "core::time::Duration")]
        want = ["%s = copy (%s.%d: core::time::Duration);" % (pls[0], d_, dcf.index(n)) for d_ in dcl] if pls and n in dcf else []
        got = [t for b in fn.blocks.values() for _, t in b.lines if pls and t.startswith(pls[0] + " = ")]
        if len(got) != 1 or got[0] not in want:
            raise Unsupported("`%s` is not bound to DcConfiguration.%s by the destructuring: %s" % (n, n, got))
    # ---- queries
    two32, two64 = ("nc", 1 << 32), ("nc", M64)
    X = ("nadd", N(SYS), N(ND))
    pathc = [("b", x["cond"]) for x in events if x["kind"] == "path"]
    pre = pathc + [("nle", ("nc", 1), N(NP)), ("nlt", X, two64)]
    pre_txt = "range checks passed (slice path condition), period_nanos >= 1, sys_time + delay_nanos < 2^64, sys_time any u64"
    asserts_b = [("b", x["cond"]) for x in eb.events if x["kind"] == "assert"]
    kinds = [x["akind"] for x in eb.events if x["kind"] == "assert"]
    qs = []

    def Q(i, name, assume, goal, note="", p=pre_txt):
        qs.append({"id": i, "name": name, "fn": "configure_dc_sync", "assume": assume, "goal": goal, "pre": p, "note": note})
    Q("Q7", "start == ((sys + delay) div period) * period", pre + asserts_b,
      ("neq", N(start), ("nmul", ("ndiv", X, N(NP)), N(NP))))
    Q("Q8", "start mod period == 0", pre + asserts_b, ("neq", ("nmod", N(start), N(NP)), ("nc", 0)))
    Q("Q9", "sys + delay - period < start <= sys + delay", pre + asserts_b,
      AND(("nlt", X, ("nadd", N(start), N(NP))), ("nle", N(start), X)))
    g10, n10 = obligations(events, [pre[-2], pre[-1]], None)
    Q("Q10", "no overflow / division-by-zero assert can fail", [], g10, "%d assert(s) in slice: %s" % (n10, kinds))
    if "div0" not in kinds:
        raise Unsupported("no division in the start-time slice")
    inP, inD = ("nlt", N(NP), two32), ("nlt", N(ND), two32)
    Q("Q11", "u32 range checks: period/delay accepted iff as_nanos < 2^32, accepted values unchanged", [],
      AND(("iff", ("and", cond_p), inP), ("imp", ("and", cond_p), ("neq", N(P_t), N(NP))),
          ("iff", ("and", cond_d), AND(inP, inD)), ("imp", ("and", cond_d), ("neq", N(D_t), N(ND)))),
      "structural: values come from debug vars sync0_period/start_delay (Duration) into sync0_period/first_pulse_delay (u64), each "
      "stored once and never borrowed; the rejecting switchInt edges end in from_residual -> Poll::Ready(Err): %s" % struct,
      p="period_nanos, delay_nanos any u128 <= max Duration")
    Q("Q12", "values written: DcSyncStartTime <- start, DcSync0CycleTime <- period, HasDc{sync0_period = period, sync0_shift = shift_nanos mod 2^64}",
      pre + asserts_b,
      AND(("b", mk_cmp("eq", sent_start, start)), ("neq", N(sent_cycle), N(NP)), ("neq", N(hf["sync0_period"]), N(NP)),
          ("neq", N(hf["sync0_shift"]), ("nmod", N(NS), two64))),
      "structural: send() is fed by write(RegisterAddress::X) in the same straight-line chain")
    Q("Q13", "only SubDevices with dc_support().any() && dc_sync() != Disabled are configured", [], sel_goal, sel_note,
      p="any result of dc_support().any(), any DcSync discriminant")
    Q("Q14", "activation flags: 0x00 first, then 0x07 for Sync01 / 0x03 otherwise; SYNC1 cycle time only for Sync01", [],
      flags_goal, flags_note, p="none (constants)")
    Q("Q15", "no DC reference clock (dc_ref_address() == None) <=> early return Err(NoReference), nothing written", [],
      nr_goal, nr_note, p="any Option<u16> discriminant")
    gw2, _ = obligations(events, [pre[-2]], None)
    gw3, _ = obligations(events, [pre[-1]], None)
    ws = [{"id": "W2", "name": "configure_dc_sync: `system_time + first_pulse_delay` overflow is reachable when sys_time + delay >= 2^64",
           "fn": "configure_dc_sync", "assume": [], "goal": gw2, "pre": "range checks passed, period_nanos >= 1", "witness": True},
          {"id": "W3", "name": "configure_dc_sync: a zero sync0_period passes the range check and reaches the division-by-zero assert",
           "fn": "configure_dc_sync", "assume": [], "goal": gw3, "pre": "range checks passed, sys+delay < 2^64", "witness": True}]
    # ---- translator validation
    B = [0, 1, (1 << 32) - 1, 1 << 32, 1 << 63, M64 - 1]
    vecs = vectors(seed + 1, 14, 4, B)
    outs = {"start_time": sent_start, "cycle_time": sent_cycle, "hasdc_period": hf["sync0_period"], "hasdc_shift": hf["sync0_shift"]}
    bad = []
    for (s_, p_, d_, h_) in vecs:
        h_ = h_ * 3                     # exercise the u128 -> u64 truncation of the shift
        env = {SYS[1]: s_, NP[1]: p_, ND[1]: d_, NS[1]: h_}
        try:
            got = run_concrete(events, outs, env)
        except KeyError as ex:
            raise Unsupported("slice depends on an input that has no role: %s" % ex)
        exp = ref_configure(s_, p_, d_, h_)
        if got != exp:
            bad.append({"sys": s_, "period_nanos": p_, "delay_nanos": d_, "shift_nanos": h_, "slice": str(got), "reference": str(exp)})
        elif got[0] == "ok":
            for q in qs:
                try:
                    holds = ev_form(q["goal"], env) or not all(ev_form(a, env) for a in q["assume"])
                except KeyError:
                    continue          # query over other inputs (Q13/Q14)
                if not holds:
                    bad.append({"sys": s_, "period_nanos": p_, "delay_nanos": d_, "query_false_on_vector": q["id"]})
    hdr = fn.header.split("(")[0][3:]
    for nm, e_ in (("u32 range checks", ea), ("start time arithmetic + DcSyncStartTime write", eb),
                   ("DcSync0CycleTime write", ec), ("HasDc aggregate", ed)):
        report["slices"].append({"function": hdr, "slice": nm, "blocks": e_.bbs, "mir": lines_json(e_),
                                 "asserts": [x["akind"] for x in e_.events if x["kind"] == "assert"]})
        report["axioms"].update(e_.axioms_used)
    report["slices"][-4]["inputs"] = {alias.get(k, k): v for k, v in inputs.items()}
    report["slices"][-3]["outputs"] = {"start_time": str(start)}
    report["linking"] = {"stable_fields": {n: stable[p]["text"] + " stored once at MIR line %d, never borrowed" % stable[p]["line"]
                                           for n, p in p_u64.items()}, "range_check_edges": struct}
    report["validation"].append({"function": "configure_dc_sync", "vectors": len(vecs), "mismatches": bad})
    return qs, ws, alias, inputs, bad

# --------------------------------------------------------------------------------------------
# 7. certified rewrites (fallback third encoding "int+rw")
#    For each wrapping sub-term u of the goal (trunc / add / sub / mul) the lemma  A |= u == u_nowrap  is
#    checked by BOTH solvers (A = the query's own assumptions, unmodified).  Only proven lemmas are used,
#    bottom-up, to replace u by u_nowrap inside the goal.  A |= (G <=> G[u_nowrap/u]) then holds, so an
#    `unsat` for  A and not G[..]  proves the original query.
# --------------------------------------------------------------------------------------------

def code_subterms(x, acc):
    if isinstance(x, tuple) and x:
        if x[0] in ("N", "b"):
            term_post(x[1], acc)
        else:
            for y in x:
                code_subterms(y, acc)
    elif isinstance(x, list):
        for y in x:
            code_subterms(y, acc)


def term_post(t, acc):
    if not isinstance(t, tuple) or not t or t[0] in ("c", "s"):
        return
    for y in t:
        if isinstance(y, tuple):
            term_post(y, acc)
    if t[0] in ("trunc", "op") and t not in acc:
        acc.append(t)


def certified_rewrites(q, inputs, alias, cmds, timeout, log):
    global _RW
    cands = []
    code_subterms(q["goal"], cands)
    rw = {}
    for u in cands:
        _RW = rw
        try:
            if u[0] == "trunc":
                a, M = enc_int(u[1], alias), 1 << u[2]
                lhs, rhs = "(ite (< %s %d) %s (mod %s %d))" % (a, M, a, a, M), a
            elif u[1] in ("add", "sub", "mul"):
                a, b, M = enc_int(u[3], alias), enc_int(u[4], alias), 1 << u[2]
                o = {"add": "+", "sub": "-", "mul": "*"}[u[1]]
                lhs, rhs = "(mod (%s %s %s) %d)" % (o, a, b, M), "(%s %s %s)" % (o, a, b)
            else:
                continue
        except EncodingUnsupported:
            continue
        finally:
            _RW = {}
        lemma = {"id": q["id"] + "-lemma", "assume": q["assume"], "goal": ("rawint", "(= %s %s)" % (lhs, rhs)),
                 "extra_terms": [u]}
        text = make_smt(lemma, "int", inputs, alias)
        ans = {sn: run_solver(cmd, text, timeout)[0] for sn, cmd in cmds.items()}
        ok = len(ans) >= 2 and all(a == "unsat" for a in ans.values())
        log.append({"term": str(u)[:160], "no_wrap_form": rhs[:160], "answers": ans, "used": ok})
        if ok:
            rw[u] = rhs
    return rw


# --------------------------------------------------------------------------------------------
# 8. driver
# --------------------------------------------------------------------------------------------

def verdict_of(answers):
    """answers: {enc: {solver: (ans, secs)}}"""
    if any(a[0] == "sat" for e in answers.values() for a in e.values()):
        return "VIOLATED"
    for enc, e in answers.items():
        if "z3" in e and "cvc5" in e and e["z3"][0] == "unsat" and e["cvc5"][0] == "unsat":
            return "DISCHARGED"
    return "INCONCLUSIVE"


def parse_model(out, alias):
    vals = {}
    for m in re.finditer(r"\((\|[^|]*\||[^\s()]+) (#x[0-9a-fA-F]+|#b[01]+|\d+|\(_ bv(\d+) \d+\)|true|false)\)", out):
        v = m.group(2)
        if v.startswith("#x"):
            v = int(v[2:], 16)
        elif v.startswith("#b"):
            v = int(v[2:], 2)
        elif v.startswith("(_ bv"):
            v = int(m.group(3))
        elif v.isdigit():
            v = int(v)
        vals[m.group(1).strip("|")] = v
    return vals


def main():
    ap = argparse.ArgumentParser(description="C18: MIR slice -> SMT-LIB2 checker (see module docstring)")
    ap.add_argument("--repo", default="/repo")
    ap.add_argument("--json", default=None)
    ap.add_argument("--timeout", type=int, default=60, help="per solver call, seconds")
    ap.add_argument("--jobs", type=int, default=int(os.environ.get("VERIF_JOBS", "6")))
    ap.add_argument("--mir", default=None, help="DEVELOPMENT ONLY: reuse an existing MIR dump instead of dumping (verdict is marked stale)")
    ap.add_argument("--keep-smt", default=None, help="directory to keep the generated .smt2 files in")
    args = ap.parse_args()
    seed = int(os.environ.get("VERIF_SEED", "1"))
    t_start = time.time()
    report = {"property": "C18", "repo": args.repo, "seed": seed, "slices": [], "axioms": set(), "validation": [],
              "queries": [], "witnesses": [], "solvers": {}, "timeout_s": args.timeout, "stale_mir": bool(args.mir),
              "encodings": {"bv": "QF_BV, (_ BitVec w) faithful wrap-around, spec side zero-extended so it cannot wrap",
                            "int": "QF_NIA, inputs range-constrained, wrap = explicit mod 2^w (ite form), div/mod of the Int theory",
                            "int+rw": "fallback: int with solver-certified no-wrap rewrites applied to the goal"}}
    cmds = solver_cmds(args.timeout)
    for sn, cmd in cmds.items():
        try:
            report["solvers"][sn] = subprocess.run([cmd[0], "--version"], stdout=subprocess.PIPE, stderr=subprocess.STDOUT,
                                                   text=True).stdout.splitlines()[0]
        except Exception as ex:       # noqa
            report["solvers"][sn] = "unavailable: %s" % ex
    inconclusive_reason = None
    queries, witnesses, validation_bad = [], [], []
    try:
        if len(cmds) < 2:
            raise Unsupported("need both z3 and cvc5 on PATH")
        if args.mir:
            mir = open(args.mir).read()
            src = read_sources(args.repo)
        else:
            mir, src = dump_mir(args.repo, report)
        mir_lines = mir.split("\n")
        report["mir_lines_total"] = len(mir_lines)
        consts = parse_consts(src)
        for fnc in (analyse_tx_rx_dc, analyse_configure):
            qs, ws, alias, inputs, bad = fnc(mir_lines, src, consts, seed, report)
            if bad:
                # do not stop: a changed source makes both this comparison and the solver queries fail; the
                # solver verdict (VIOLATED + model) is the informative one.  If every query is still discharged
                # the mismatch means the extraction/encoding is suspect => INCONCLUSIVE at the end.
                validation_bad.append("%s: slice and hand-written reference disagree on %d vector(s), first: %s"
                                      % (fnc.__name__, len(bad), bad[0]))
            for q in qs:
                queries.append((q, alias, inputs))
            for w in ws:
                witnesses.append((w, alias, inputs))
    except Unsupported as ex:
        inconclusive_reason = str(ex)
    except (subprocess.TimeoutExpired, OSError) as ex:
        inconclusive_reason = "infrastructure: %s" % ex
    if inconclusive_reason:
        print("INCONCLUSIVE: " + inconclusive_reason)
        report["inconclusive_reason"] = inconclusive_reason
        report["axioms"] = sorted(report["axioms"])
        report["exit"] = 2
        if args.json:
            with open(args.json, "w") as f:
                json.dump(report, f, indent=1, default=str)
        return 2
    # ---- run all (query x encoding x solver) in parallel
    tasks, texts = [], {}
    for (q, alias, inputs) in queries + witnesses:
        for enc in ("int", "bv"):
            try:
                texts[(q["id"], enc)] = make_smt(q, enc, inputs, alias)
            except EncodingUnsupported as ex:
                texts[(q["id"], enc)] = None
                q.setdefault("enc_errors", {})[enc] = str(ex)
                continue
            for sn, cmd in cmds.items():
                tasks.append((q["id"], enc, sn, cmd))
    if args.keep_smt:
        os.makedirs(args.keep_smt, exist_ok=True)
        for (qid, enc), t in texts.items():
            if t:
                open(os.path.join(args.keep_smt, "%s_%s.smt2" % (qid, enc)), "w").write(t)
    results = {}
    with concurrent.futures.ThreadPoolExecutor(max_workers=max(1, args.jobs)) as ex:
        futs = {ex.submit(run_solver, cmd, texts[(qid, enc)], args.timeout): (qid, enc, sn) for (qid, enc, sn, cmd) in tasks}
        for fu in concurrent.futures.as_completed(futs):
            qid, enc, sn = futs[fu]
            a, dt, out = fu.result()
            results.setdefault(qid, {}).setdefault(enc, {})[sn] = (a, dt)
    exit_code = 0
    for (q, alias, inputs) in queries + witnesses:
        ans = results.get(q["id"], {})
        v = verdict_of(ans)
        lemmas = []
        if v == "INCONCLUSIVE" and not q.get("witness") and q["assume"]:
            rw = certified_rewrites(q, inputs, alias, cmds, min(args.timeout, 30), lemmas)
            if rw:
                text = make_smt(q, "int", inputs, alias, rw=rw)
                if args.keep_smt:
                    open(os.path.join(args.keep_smt, "%s_int+rw.smt2" % q["id"]), "w").write(text)
                texts[(q["id"], "int+rw")] = text
                ans["int+rw"] = {sn: run_solver(cmd, text, args.timeout)[:2] for sn, cmd in cmds.items()}
                v = verdict_of(ans)
        model = None
        if v == "VIOLATED":
            for enc, e in ans.items():
                for sn, a in e.items():
                    if a[0] == "sat" and model is None:
                        rwm = None
                        t = make_smt(q, "int" if enc.startswith("int") else "bv", inputs, alias, with_model=True)
                        model = parse_model(run_solver(cmds[sn], t, args.timeout)[2], alias)
                        model = {"solver": sn, "encoding": enc, "values": model}
        best = None
        for enc, e in ans.items():
            for sn, a in e.items():
                want = "sat" if v == "VIOLATED" else "unsat"
                if a[0] == want and (best is None or a[1] < best[2]):
                    best = (sn, enc, a[1])
        detail = "; ".join("%s/%s=%s %.2fs" % (enc, sn, a[0], a[1]) for enc, e in sorted(ans.items()) for sn, a in sorted(e.items()))
        rec = {"id": q["id"], "name": q["name"], "function": q["fn"], "preconditions": q["pre"], "note": q.get("note", ""),
               "answers": {enc: {sn: {"answer": a[0], "seconds": a[1]} for sn, a in e.items()} for enc, e in ans.items()},
               "model": model, "lemmas": lemmas, "enc_errors": q.get("enc_errors", {})}
        if q.get("witness"):
            reach = "REACHABLE" if v == "VIOLATED" else ("NOT-REACHABLE" if v == "DISCHARGED" else "UNDECIDED")
            rec["verdict"] = reach
            print("%s %s: %s  [%s]" % (q["id"], q["name"], reach, detail))
            if model:
                print("     witness (%s): %s" % (q["pre"], json.dumps(model["values"], sort_keys=True)))
            report["witnesses"].append(rec)
            continue
        rec["verdict"] = v
        head = "(%s, %s, %.2fs)" % best if best else "(no decisive answer)"
        print("%s %s: %s %s  [%s]" % (q["id"], q["name"], v, head, detail))
        if v == "VIOLATED":
            print("     COUNTEREXAMPLE under {%s}: %s" % (q["pre"], json.dumps(model["values"] if model else {}, sort_keys=True)))
            if q.get("note"):
                print("     note: " + q["note"][:500])
            exit_code = max(exit_code, 1) if exit_code != 2 else 2
            exit_code = 1 if exit_code == 0 else exit_code
        elif v == "INCONCLUSIVE" and exit_code == 0:
            exit_code = 2
        report["queries"].append(rec)
    vio = [r["id"] for r in report["queries"] if r["verdict"] == "VIOLATED"]
    inc = [r["id"] for r in report["queries"] if r["verdict"] == "INCONCLUSIVE"]
    exit_code = 1 if vio else (2 if (inc or validation_bad) else 0)
    nvec = sum(v["vectors"] for v in report["validation"])
    if validation_bad:
        for vb in validation_bad:
            print("translator validation MISMATCH: " + vb[:600])
        if not vio:
            print("INCONCLUSIVE: all queries discharged but the extracted slice does not match the hand-written reference "
                  "of the Rust source (source changed, or extraction/encoding defect)")
    else:
        print("translator validation: %d vectors, slice == hand-written reference on all (seed %d)" % (nvec, seed))
    print("C18 mirslice: %d queries, %d discharged, %d violated %s, %d inconclusive %s; %.0f s%s" % (
        len(report["queries"]), sum(1 for r in report["queries"] if r["verdict"] == "DISCHARGED"), len(vio), vio or "",
        len(inc), inc or "", time.time() - t_start, "  [STALE MIR: development run]" if args.mir else ""))
    report["axioms"] = {k: Eval.KNOWN_DESC[k] for k in sorted(report["axioms"])}
    report["exit"] = exit_code
    report["seconds"] = round(time.time() - t_start, 1)
    if args.json:
        with open(args.json, "w") as f:
            json.dump(report, f, indent=1, default=str)
    return exit_code


if __name__ == "__main__":
    sys.exit(main())

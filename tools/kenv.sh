# source me: environment for building the harness package with kani
export CARGO_NET_OFFLINE=true
export ETHERCRAB_VERIF_DIR=/verif/kani/harness
if [ -n "${VERIF_EXTRA_CFG:-}" ]; then
  export RUSTFLAGS="--cfg ethercrab_verif ${VERIF_EXTRA_CFG}"
else
  export RUSTFLAGS="--cfg ethercrab_verif"
fi

#!/bin/bash
# usage: krun.sh <harness-substring> <unwind> [extra cbmc args]  -- dev helper: codegen + pipeline + cbmc
set -e
. /verif/tools/kenv.sh
cd /verif/kani
TD=${VERIF_TD:-/verif/kani/target-base}
cargo kani --target-dir $TD --only-codegen > /tmp/kcodegen.log 2>&1 || { grep -E "^error" -A12 /tmp/kcodegen.log | head -60; exit 1; }
H=$1; U=$2; shift 2
S=$(ls -t $TD/kani/x86_64-unknown-linux-gnu/debug/build/ethercrab/*/out/*$H.symtab.out | head -1)
O=$(/verif/tools/kpipe.sh $S 2>/dev/null | tail -1)
cd /tmp
( ulimit -v 16000000; /usr/bin/time -f "wall %e s rss %M KB" timeout ${VERIF_TO:-600} cbmc --no-malloc-may-fail --no-undefined-shift-check --no-signed-overflow-check --nan-check --no-self-loops-to-assumptions --no-pointer-primitive-check --object-bits 16 --sat-solver cadical --slice-formula --unwind $U --verbosity 8 "$@" $O > /tmp/cbmc_$H.log 2>&1 ) 2>&1 | tail -1
grep -E "Runtime Symex|Runtime Solver|VERIFICATION|size of program|Not unwinding|: FAILURE|SATISFIED|cover.*:" /tmp/cbmc_$H.log | grep -v reachability_check | cut -c1-250 | sort | uniq -c | sort -rn | head -${VERIF_LINES:-25}

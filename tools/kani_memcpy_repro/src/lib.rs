use core::{future::Future, pin::pin, task::{Context, Poll, RawWaker, RawWakerVTable, Waker}};
fn rw_clone(_: *const ()) -> RawWaker { RawWaker::new(core::ptr::null(), &VTABLE) }
fn rw_noop(_: *const ()) {}
static VTABLE: RawWakerVTable = RawWakerVTable::new(rw_clone, rw_noop, rw_noop, rw_noop);
fn run_ready<F: Future>(f: F) -> F::Output {
    let w = unsafe { Waker::from_raw(RawWaker::new(core::ptr::null(), &VTABLE)) };
    let mut cx = Context::from_waker(&w);
    let mut f = pin!(f);
    match f.as_mut().poll(&mut cx) { Poll::Ready(v) => v, Poll::Pending => panic!() }
}
static mut LOG: [[u8; 2]; 4] = [[0; 2]; 4];
static mut CNT: usize = 0;
async fn sink(w: [u8; 2]) { unsafe { if CNT < 4 { LOG[CNT] = w; } CNT += 1; } }
async fn writer(buf: &[u8]) -> usize {
    let mut word = [0u8; 2];
    let mut written = 0;
    for chunk in buf.chunks(2) {
        let (dest, _pad) = word.split_at_mut(chunk.len());
        dest.copy_from_slice(chunk);
        sink(word).await;
        written += chunk.len();
    }
    written
}
#[cfg(kani)] #[kani::proof] #[kani::unwind(5)]
fn t_async_sym() {
    let p = [0x11u8, 0x22, 0x33, 0x44, 0x55];
    let n: usize = kani::any();
    kani::assume(n == 3);
    let w = run_ready(writer(&p[..n]));
    assert!(w == 3);
    assert!(unsafe { LOG[1][0] } == 0x33);
    assert!(unsafe { LOG[1][1] } == 0x22);
}
#[cfg(kani)] #[kani::proof] #[kani::unwind(5)]
fn t_async_conc() {
    let p = [0x11u8, 0x22, 0x33, 0x44, 0x55];
    let w = run_ready(writer(&p[..3]));
    assert!(w == 3);
    assert!(unsafe { LOG[1][0] } == 0x33);
    assert!(unsafe { LOG[1][1] } == 0x22);
}
async fn outer(buf: &[u8]) -> usize { writer(buf).await }
#[cfg(kani)] #[kani::proof] #[kani::unwind(5)]
fn t_async_nested_conc() {
    let p = [0x11u8, 0x22, 0x33, 0x44, 0x55];
    let w = run_ready(outer(&p[..3]));
    assert!(w == 3);
    assert!(unsafe { LOG[1][0] } == 0x33);
    assert!(unsafe { LOG[1][1] } == 0x22);
}

#!/bin/bash
# usage: kpipe.sh <symtab.out> ; produces <base>.final.out ready for cbmc
set -e
S="$1"; B="${S%.symtab.out}"; O="$B.final.out"
FN=$(basename "$B"); FN="${FN#*__}"; 
KL=/root/.kani/kani-0.68.0
goto-cc "$S" $KL/library/kani/kani_lib.c -o "$O"
goto-cc "$O" --function "_$FN" -o "$O"
goto-instrument --add-library --no-malloc-may-fail "$O" "$O" >/dev/null
goto-instrument --generate-function-body-options assert-false-assume-false --generate-function-body '.*' --drop-unused-functions "$O" "$O" >/dev/null
goto-instrument --ensure-one-backedge-per-target "$O" "$O" >/dev/null
echo "$O"

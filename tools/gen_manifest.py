#!/usr/bin/env python3
"""Regenerates /verif/MANIFEST.json from the table below (claimed properties) + not_applicable list."""
import json, os, subprocess
V = os.path.dirname(os.path.dirname(os.path.abspath(__file__)))
TECH = "bounded symbolic execution of the real code (Kani 0.68 -> CBMC 6.11, SAT/cadical), all inputs within stated unwind/size bounds"
CLAIMED = {
    # id: (design_ref, level text, level_note)
    "C13": ("DESIGN.md §6 C13", "Every EEPROM-derived query is run over a provider that answers each access with fresh symbolic bytes (over-approximating every image); CBMC proves absence of panics/overflow/OOB and loop bounds for all contents within the stated number of accesses.",
            "Trusted: Kani/CBMC, the arbitrary-provider model, unwind bounds per harness (evidence lists them). Outside: category walks longer than the bound, init as a whole."),
}
NOT_APPLICABLE = {
    "C09": "MainDevice::init is a whole-program run (>=43 PDUs before the first device is touched, FnvIndexMap grouping, two state transitions); at ~1 min of CBMC per real-transport PDU it cannot be encoded within reach, and no clause has a bounded unit of its own (see DESIGN.md §7).",
}
def main():
    props = [json.loads(l)["id"] for l in open(os.path.join(V, "properties.jsonl"))]
    extra = {}
    p = os.path.join(V, "tools", "manifest_table.json")
    if os.path.exists(p):
        extra = json.load(open(p))
    claimed = dict(CLAIMED)
    for k, v in extra.get("claimed", {}).items():
        claimed[k] = tuple(v)
    na = dict(NOT_APPLICABLE)
    na.update(extra.get("not_applicable", {}))
    for pid in props:
        if pid not in claimed and pid not in na:
            na[pid] = "not yet claimed: harnesses for this property are still being built (solver-based check planned in DESIGN.md §6)"
    for pid in claimed:
        na.pop(pid, None)
    hooks = subprocess.run(["git", "-C", "/repo", "log", "--format=%H %s"], stdout=subprocess.PIPE, text=True).stdout.splitlines()
    hook_commits = [l.split()[0] for l in hooks if " verif hook" in l]
    m = {
        "version": 1,
        "setup_cmd": "./tools/setup.sh",
        "hooks": {
            "guard": "ethercrab_verif",
            "enable": "RUSTFLAGS='--cfg ethercrab_verif [--cfg ethercrab_verif_h1]' ETHERCRAB_VERIF_DIR=/verif/kani/harness cargo kani (package /verif/kani, lib path /repo/src/lib.rs); sub-switches --cfg ethercrab_verif_h1 (scripted device behind MainDevice::single_pdu) and --cfg ethercrab_verif_yield=\"on\" (pre-emption points) only together with the guard",
            "baseline_off_cmd": "cd /repo && RUSTUP_TOOLCHAIN=1.88.0 cargo test --workspace --no-fail-fast --offline",
            "source_commits": hook_commits,
            "add_only": True,
        },
        "engines": [
            {"name": "K", "path": "/verif/check + /verif/kani", "serves_properties": sorted(claimed),
             "kind_free_text": "Kani 0.68 compiles /repo's lib.rs with harnesses mounted through the cfg(ethercrab_verif) hook; goto-cc/goto-instrument lowering; CBMC 6.11 + cadical decide each harness within its unwind bounds"},
            {"name": "M", "path": "/verif/tools/mirslice.py", "serves_properties": ["C18"],
             "kind_free_text": "nightly MIR dump of /repo's working tree -> straight-line slices of tx_rx_dc / configure_dc_sync -> SMT-LIB2 (bit-vector and integer encodings) -> z3 5.1 + cvc5 1.0, both must agree"},
        ],
        "checks": [],
        "not_applicable": [{"property_id": k, "reason": v} for k, v in sorted(na.items())],
        "notes": "All checks: exit 0 held / 1 VIOLATION (replayed natively through kani concrete playback) / 2 inconclusive. Known findings: /verif/known_findings.json.",
    }
    for pid in sorted(claimed):
        ref, text, note = claimed[pid]
        m["checks"].append({
            "property_id": pid,
            "quick_cmd": "./check %s --tier quick" % pid,
            "thorough_cmd": "./check %s --tier thorough" % pid,
            "evidence_file": "/verif/evidence/%s.json" % pid,
            "replay_cmd_template": "./check %s --replay {path}" % pid,
            "engine": "M" if pid == "C18" else "K",
            "level_claimed": {"category": "other", "text": "Bounded symbolic verification (not exploration, not an unbounded proof). " + text, "design_ref": ref},
            "level_note": note,
            "technique": ("symbolic evaluation of the real MIR slice, SMT (z3 + cvc5, bit-vector and integer encodings), all 64-bit values within stated preconditions" if pid == "C18" else TECH),
        })
    json.dump(m, open(os.path.join(V, "MANIFEST.json"), "w"), indent=1)
    print("claimed:", sorted(claimed), "n/a:", sorted(na))
main()

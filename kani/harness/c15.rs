// C15 (sync units): request encoding and the cyclic mailbox counter. The transfer logic itself is
// nested async over the mailbox protocol (c15_sdo_read_expedited in c16.rs, thorough tier).
use crate::{
    SubIndex,
    mailbox::coe::services::{SdoExpedited, SdoNormal},
    verif::support::*,
};
use ethercrab_wire::EtherCrabWireWriteSized;

//@ harness: c15_counter_and_requests
//@ property: C15
//@ tier: quick
//@ unwind: 12
//@ functions: SubDevice::mailbox_counter; SdoNormal::upload; SdoExpedited::download; MailboxHeader::pack; CoeHeader::pack; SdoHeader::pack
//@ bounds: counter from every value of its invariant range 1..=7, 3 consecutive draws; upload / expedited download requests for every index, sub-index (or complete access), counter 1..=7, 1..=4 data bytes
//@ outside: the transfers themselves (responses, segments, aborts): c15_sdo_read_expedited, c16_sdo_read_any_reply
#[kani::proof]
#[kani::unwind(12)]
pub fn c15_counter_and_requests() {
    // every request carries a mailbox counter cycling through 1..7
    let sd = mk_subdevice(0x1000, 0);
    let start: u8 = kani::any();
    // representation invariant of the field: initialised to 1 and only ever updated by mailbox_counter()
    kani::assume(start >= 1 && start <= 7);
    sd.mailbox_counter.store(start, core::sync::atomic::Ordering::Relaxed);
    let mut prev = 0u8;
    let mut expect = start;
    let mut i = 0;
    while i < 3 {
        let c = sd.mailbox_counter();
        assert!(c >= 1 && c <= 7);
        // consecutive requests carry consecutive counters, 7 wraps to 1 (0 is never used)
        assert!(c == expect);
        expect = if c == 7 { 1 } else { c + 1 };
        prev = c;
        i += 1;
    }
    kani::cover!(prev == 1 && start == 6);

    let index: u16 = kani::any();
    let sub: u8 = kani::any();
    let complete: bool = kani::any();
    let access = if complete { SubIndex::Complete } else { SubIndex::Index(sub) };
    let counter: u8 = kani::any();
    kani::assume(counter >= 1 && counter <= 7);
    // upload request: 6-byte mailbox header (len 10, address 0, channel/prio 0, type CoE=3 | counter<<4),
    // CoE header (service SDO request = 2 in the top nibble), SDO header (command 2 = upload << 5 | CA << 4)
    let up = SdoNormal::upload(counter, index, access).pack();
    let up: &[u8] = up.as_ref();
    assert!(up.len() == 12);
    assert!(up[0] == 10 && up[1] == 0 && up[2] == 0 && up[3] == 0 && up[4] == 0);
    assert!(up[5] == 0x03 | (counter << 4));
    assert!(up[6] == 0 && up[7] == 0x20);
    assert!(up[8] == (2 << 5) | ((complete as u8) << 4));
    assert!(u16::from_le_bytes([up[9], up[10]]) == index);
    assert!(up[11] == if complete { 0 } else { sub } || complete);

    // expedited download: size bits = 4 - len, size indicated, expedited, command 1 = download
    let data: [u8; 4] = kani::any();
    let len: u8 = kani::any();
    kani::assume(len >= 1 && len <= 4);
    let down = SdoExpedited::download(counter, index, access, data, len).pack();
    let down: &[u8] = down.as_ref();
    assert!(down.len() == 16);
    assert!(down[0] == 10 && down[5] == 0x03 | (counter << 4) && down[7] == 0x20);
    assert!(down[8] == 0x01 | 0x02 | ((4 - len) << 2) | ((complete as u8) << 4) | (1 << 5));
    assert!(u16::from_le_bytes([down[9], down[10]]) == index);
    assert!(down[12] == data[0] && down[13] == data[1] && down[14] == data[2] && down[15] == data[3]);
}

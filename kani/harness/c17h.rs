// C17 (I/O part, over the H1 scripted device): latching of port times and the register values
// written by configure_dc (system-time offset, propagation delay, reference selection).
use crate::{
    Command, DcSupport, MainDevice, MainDeviceConfig, PduStorage, Timeouts,
    command::{Reads, Writes},
    dc::configure_dc,
    subdevice::ports::Ports,
    verif::{h1::*, support::*},
};

const N: usize = 2;
static mut RECV: [u64; N] = [0; N];
static mut PORT_T: [[u32; 4]; N] = [[0; 4]; N]; // register order: port 0, 1, 2, 3
static mut OFFS: [i64; N] = [0; N];
static mut OFFS_SEEN: [bool; N] = [false; N];
static mut DELAY: [u32; N] = [0; N];
static mut DELAY_SEEN: [bool; N] = [false; N];
static mut STRAY_WRITES: u32 = 0;
static mut NOW_CALLS: u64 = 0;
static mut NOW_BASE: u64 = 0;

fn dev_index(address: u16) -> Option<usize> {
    if address >= 0x1000 && usize::from(address - 0x1000) < N { Some(usize::from(address - 0x1000)) } else { None }
}

fn dev(req: &H1Request, resp: &mut H1Response) {
    resp.wkc = 1;
    match req.command {
        Command::Write(Writes::Bwr { .. }) => {
            resp.wkc = N as u16;
        }
        Command::Read(Reads::Fprd { address, register }) => {
            if let Some(i) = dev_index(address) {
                if register == 0x0918 {
                    let b = unsafe { RECV[i] }.to_le_bytes();
                    let mut k = 0;
                    while k < 8 {
                        resp.data[k] = b[k];
                        k += 1;
                    }
                } else if register == 0x0900 {
                    let mut p = 0;
                    while p < 4 {
                        let b = unsafe { PORT_T[i][p] }.to_le_bytes();
                        resp.data[4 * p] = b[0];
                        resp.data[4 * p + 1] = b[1];
                        resp.data[4 * p + 2] = b[2];
                        resp.data[4 * p + 3] = b[3];
                        p += 1;
                    }
                }
            }
        }
        Command::Write(Writes::Fpwr { address, register }) => unsafe {
            match (dev_index(address), register) {
                (Some(i), 0x0920) => {
                    let mut b = [0u8; 8];
                    let mut k = 0;
                    while k < 8 {
                        b[k] = req.data[k];
                        k += 1;
                    }
                    OFFS[i] = i64::from_le_bytes(b);
                    OFFS_SEEN[i] = true;
                }
                (Some(i), 0x0928) => {
                    DELAY[i] = u32::from_le_bytes([req.data[0], req.data[1], req.data[2], req.data[3]]);
                    DELAY_SEEN[i] = true;
                }
                _ => STRAY_WRITES += 1,
            }
        },
        _ => {}
    }
}

fn now() -> u64 {
    // a master clock that moves on between readings
    unsafe {
        NOW_CALLS += 1;
        NOW_BASE + 62_500 * (NOW_CALLS - 1)
    }
}

static STORAGE: PduStorage<1, 32> = PduStorage::new();

//@ harness: c17_configure_dc_1
//@ property: C17
//@ tier: thorough
//@ config: h1
//@ unwind: 6
//@ unwindset: latch_dc_times0:3; configure_dc:3; assign_parent_relationships:3; c17h3dev:10
//@ timeout: 1800
//@ functions: dc::configure_dc; dc::latch_dc_times; dc::write_dc_parameters; dc::assign_parent_relationships; Ports::set_receive_times; WrappedRead::receive; WrappedWrite::send
//@ bounds: 1 DC SubDevice with all four ports open, symbolic latched times for ports 0..3 and symbolic 64-bit receive time, symbolic master time (all < 2^62)
//@ assumes: transport = H1 scripted device
//@ outside: several devices (c17_configure_dc_2), 32-bit-only clocks
#[kani::proof]
#[kani::unwind(10)]
pub fn c17_configure_dc_1() {
    let (_tx, _rx, pdu_loop) = STORAGE.try_split().unwrap();
    let md = MainDevice::new(pdu_loop, Timeouts::default(), MainDeviceConfig::default());
    let recv: u64 = kani::any();
    let base: u64 = kani::any();
    kani::assume(recv < (1 << 62) && base < (1 << 62));
    let t: [u32; 4] = kani::any();
    unsafe {
        RECV = [recv, 0];
        PORT_T = [t, [0; 4]];
        OFFS_SEEN = [false; N];
        DELAY_SEEN = [false; N];
        STRAY_WRITES = 0;
        NOW_CALLS = 0;
        NOW_BASE = base;
    }
    install(dev);
    let mut sd = mk_subdevice(0x1000, 0);
    sd.dc_support = DcSupport::Bits64;
    sd.ports = Ports::new(true, true, true, true);
    let mut sds = [sd];
    let r = run_ready(configure_dc(&md, &mut sds, now));
    let first = match r {
        Ok(f) => f.map(|s| s.configured_address()),
        Err(_) => panic!("configure_dc failed on a single healthy device"),
    };
    kani::cover!(true);
    // each latched port time is stored for the port it was latched on (array order is 0, 3, 1, 2)
    let p = &sds[0].ports.0;
    assert!(p[0].number == 0 && p[0].dc_receive_time == t[0]);
    assert!(p[1].number == 3 && p[1].dc_receive_time == t[3]);
    assert!(p[2].number == 1 && p[2].dc_receive_time == t[1]);
    assert!(p[3].number == 2 && p[3].dc_receive_time == t[2]);
    assert!(sds[0].dc_receive_time == recv);
    // the first DC device is the reference; offset = master time - latched receive time; no delay
    assert!(first == Some(0x1000));
    unsafe {
        assert!(OFFS_SEEN[0] && OFFS[0] == (base as i64) - (recv as i64));
        assert!(DELAY_SEEN[0] && DELAY[0] == 0);
        assert!(STRAY_WRITES == 0);
    }
}

//@ harness: c17_configure_dc_2
//@ property: C17
//@ tier: thorough
//@ config: h1
//@ unwind: 6
//@ unwindset: latch_dc_times0:4; configure_dc:4; assign_parent_relationships:4; c17h3dev:10
//@ timeout: 3000
//@ mem_gb: 30
//@ functions: dc::configure_dc; dc::latch_dc_times; dc::write_dc_parameters; dc::assign_parent_relationships; dc::configure_subdevice_offsets
//@ bounds: chain of 2 DC SubDevices (device 0: ports 0 and 1 open, device 1: port 0 open), symbolic link delay 10..=2000 ns, symbolic clock offsets and receive times, master clock that advances 62.5 us per reading
//@ assumes: transport = H1 scripted device; zero forwarding delay
#[kani::proof]
#[kani::unwind(10)]
pub fn c17_configure_dc_2() {
    let (_tx, _rx, pdu_loop) = STORAGE.try_split().unwrap();
    let md = MainDevice::new(pdu_loop, Timeouts::default(), MainDeviceConfig::default());
    let recv: [u64; 2] = kani::any();
    let base: u64 = kani::any();
    kani::assume(recv[0] < (1 << 62) && recv[1] < (1 << 62) && base < (1 << 62));
    let d: u32 = kani::any();
    kani::assume(d >= 10 && d <= 2000);
    let c0: u32 = kani::any();
    let c1: u32 = kani::any();
    kani::assume(c0 < 0xffff_0000 && c1 < 0xffff_0000);
    // frame passes device 0 port 0 at c0, device 1 port 0 at c1 (its own clock), returns to device 0 port 1 at c0 + 2d
    unsafe {
        RECV = recv;
        PORT_T = [[c0, c0 + 2 * d, 0, 0], [c1, 0, 0, 0]];
        OFFS_SEEN = [false; N];
        DELAY_SEEN = [false; N];
        STRAY_WRITES = 0;
        NOW_CALLS = 0;
        NOW_BASE = base;
    }
    install(dev);
    let mut a = mk_subdevice(0x1000, 0);
    a.dc_support = DcSupport::Bits64;
    a.ports = Ports::new(true, false, true, false);
    let mut b = mk_subdevice(0x1001, 1);
    b.dc_support = DcSupport::Bits64;
    b.ports = Ports::new(true, false, false, false);
    let mut sds = [a, b];
    let r = run_ready(configure_dc(&md, &mut sds, now));
    assert!(matches!(r, Ok(Some(f)) if f.configured_address() == 0x1000));
    kani::cover!(true);
    assert!(sds[1].parent_index == Some(0));
    unsafe {
        // every offset is computed against ONE reading of the master clock
        assert!(OFFS_SEEN[0] && OFFS_SEEN[1]);
        assert!(OFFS[0] == (base as i64) - (recv[0] as i64));
        assert!(OFFS[1] == (base as i64) - (recv[1] as i64));
        assert!(DELAY_SEEN[0] && DELAY[0] == 0);
        assert!(DELAY_SEEN[1] && DELAY[1] == d);
        assert!(STRAY_WRITES == 0);
    }
}

// Root of the verification harnesses, mounted as `crate::verif` by the H0 hook in /repo/src/lib.rs.
pub mod support {
    include!(concat!(env!("ETHERCRAB_VERIF_DIR"), "/support.rs"));
}
#[cfg(ethercrab_verif_h1)]
pub mod h1 {
    include!(concat!(env!("ETHERCRAB_VERIF_DIR"), "/h1.rs"));
}
#[cfg(kani)]
pub mod c13 {
    include!(concat!(env!("ETHERCRAB_VERIF_DIR"), "/c13.rs"));
}
#[cfg(kani)]
pub mod c05 {
    include!(concat!(env!("ETHERCRAB_VERIF_DIR"), "/c05.rs"));
}
#[cfg(kani)]
pub mod c02 {
    include!(concat!(env!("ETHERCRAB_VERIF_DIR"), "/c02.rs"));
}
#[cfg(kani)]
pub mod c01 {
    include!(concat!(env!("ETHERCRAB_VERIF_DIR"), "/c01.rs"));
}
#[cfg(kani)]
pub mod c03 {
    include!(concat!(env!("ETHERCRAB_VERIF_DIR"), "/c03.rs"));
}
#[cfg(kani)]
pub mod c06 {
    include!(concat!(env!("ETHERCRAB_VERIF_DIR"), "/c06.rs"));
}
#[cfg(kani)]
pub mod c04 {
    include!(concat!(env!("ETHERCRAB_VERIF_DIR"), "/c04.rs"));
}
#[cfg(kani)]
pub mod c10 {
    include!(concat!(env!("ETHERCRAB_VERIF_DIR"), "/c10.rs"));
}
#[cfg(kani)]
pub mod c07 {
    include!(concat!(env!("ETHERCRAB_VERIF_DIR"), "/c07.rs"));
}
#[cfg(kani)]
pub mod c12 {
    include!(concat!(env!("ETHERCRAB_VERIF_DIR"), "/c12.rs"));
}
#[cfg(kani)]
pub mod c14 {
    include!(concat!(env!("ETHERCRAB_VERIF_DIR"), "/c14.rs"));
}
#[cfg(kani)]
pub mod c20 {
    include!(concat!(env!("ETHERCRAB_VERIF_DIR"), "/c20.rs"));
}
#[cfg(kani)]
pub mod c17 {
    include!(concat!(env!("ETHERCRAB_VERIF_DIR"), "/c17.rs"));
}
#[cfg(kani)]
pub mod c19 {
    include!(concat!(env!("ETHERCRAB_VERIF_DIR"), "/c19.rs"));
}
#[cfg(kani)]
pub mod c19_gen {
    include!(concat!(env!("ETHERCRAB_VERIF_DIR"), "/c19_gen.rs"));
}
#[cfg(kani)]
pub mod c15 {
    include!(concat!(env!("ETHERCRAB_VERIF_DIR"), "/c15.rs"));
}
#[cfg(all(kani, ethercrab_verif_h1))]
pub mod c11 {
    include!(concat!(env!("ETHERCRAB_VERIF_DIR"), "/c11.rs"));
}
#[cfg(all(kani, ethercrab_verif_h1))]
pub mod c16 {
    include!(concat!(env!("ETHERCRAB_VERIF_DIR"), "/c16.rs"));
}
#[cfg(all(kani, ethercrab_verif_yield = "on"))]
pub mod cwin {
    include!(concat!(env!("ETHERCRAB_VERIF_DIR"), "/cwin.rs"));
}
#[cfg(all(kani, ethercrab_verif_h1))]
pub mod c18 {
    include!(concat!(env!("ETHERCRAB_VERIF_DIR"), "/c18.rs"));
}
#[cfg(all(kani, ethercrab_verif_h1))]
pub mod c17h {
    include!(concat!(env!("ETHERCRAB_VERIF_DIR"), "/c17h.rs"));
}
#[cfg(all(kani, test))]
mod playback_current {
    include!(concat!(env!("ETHERCRAB_VERIF_DIR"), "/_playback_current.rs"));
}

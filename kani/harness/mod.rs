// Root of the verification harnesses, mounted as `crate::verif` by the H0 hook in /repo/src/lib.rs.
pub mod support {
    include!(concat!(env!("ETHERCRAB_VERIF_DIR"), "/support.rs"));
}
#[cfg(kani)]
pub mod c13 {
    include!(concat!(env!("ETHERCRAB_VERIF_DIR"), "/c13.rs"));
}
#[cfg(all(kani, test))]
mod playback_current {
    include!(concat!(env!("ETHERCRAB_VERIF_DIR"), "/_playback_current.rs"));
}

// C16: no mailbox reply can crash the MainDevice or make it read out of bounds.
// C15 (partly): expedited SDO upload delivers the object's bytes; abort / wrong-object replies are errors.
//
// The SubDevice is the scripted device behind H1: SM status registers answer "in-mailbox free,
// out-mailbox full", the out-mailbox content is FULLY SYMBOLIC (24 bytes).
use crate::{
    Command, MainDevice, MainDeviceConfig, PduStorage, Timeouts,
    command::{Reads, Writes},
    error::{Error, MailboxError},
    subdevice::{Mailbox, SubDeviceRef},
    verif::{h1::*, support::*},
};

const MBX_LEN: u16 = 24;
const WR_ADDR: u16 = 0x1000;
const RD_ADDR: u16 = 0x1080;
const SM_WR_STATUS: u16 = 0x0805; // SM0
const SM_RD_STATUS: u16 = 0x080d; // SM1

static mut REPLY: [u8; 24] = [0; 24];
static mut MAX_CALLS: usize = 8;
static mut REQ: [u8; 16] = [0; 16];
static mut REQ_SEEN: bool = false;

fn dev(req: &H1Request, resp: &mut H1Response) {
    unsafe {
        // exchanges beyond the budget are outside the claim
        kani::assume(CALLS <= MAX_CALLS);
    }
    resp.wkc = 1;
    match req.command {
        Command::Read(Reads::Fprd { register, .. }) => {
            if register == SM_RD_STATUS {
                // stale-mailbox check (first read) says empty, later reads say "response waiting"
                let first = unsafe { CALLS } == 1;
                resp.data[0] = if first { 0x00 } else { 0x08 };
            } else if register == SM_WR_STATUS {
                resp.data[0] = 0x00;
            } else if register == RD_ADDR {
                let mut i = 0;
                while i < 24 {
                    resp.data[i] = unsafe { REPLY[i] };
                    i += 1;
                }
            }
        }
        Command::Write(Writes::Fpwr { register, .. }) => {
            if register == WR_ADDR {
                unsafe {
                    let mut i = 0;
                    while i < 16 {
                        REQ[i] = req.data[i];
                        i += 1;
                    }
                    REQ_SEEN = true;
                }
            }
        }
        _ => {}
    }
}

fn mk_sd() -> crate::SubDevice {
    let mut sd = mk_subdevice(0x1001, 0);
    sd.config.mailbox.write = Some(Mailbox { address: WR_ADDR, len: MBX_LEN, sync_manager: 0 });
    sd.config.mailbox.read = Some(Mailbox { address: RD_ADDR, len: MBX_LEN, sync_manager: 1 });
    sd.config.mailbox.has_coe = true;
    sd
}

static STORAGE: PduStorage<1, 32> = PduStorage::new();

//@ harness: c16_sdo_read_any_reply
//@ property: C16
//@ tier: thorough
//@ config: h1
//@ unwind: 4
//@ timeout: 3000
//@ functions: SubDeviceRef::sdo_read; Coe::sdo_read; Coe::mailbox_write_read; Coe::wait_for_mailboxes; Coe::wait_for_mailbox_response; HeadersRaw::unpack_from_slice; SdoNormal::unpack_from_slice; CoeAbortCode::unpack_from_slice; ReceivedPdu::trim_front
//@ bounds: sdo_read::<u32> against a 24-byte out-mailbox with FULLY SYMBOLIC contents (every header field, every service/command code, lengths that lie); at most 8 PDUs (paths needing a second mailbox exchange are cut by assume)
//@ stubs: embassy_time_driver::now -> virtual clock (never advances: no timeout fires); schedule_wake -> no-op
//@ assumes: transport = H1 scripted device (response length = mailbox length); SM status script: out-mailbox empty before the request, full afterwards; > 8 PDUs cut
//@ outside: segmented continuation (second exchange), SDO-info fragments, mailbox sizes other than 24
#[kani::proof]
#[kani::unwind(4)]
#[kani::stub(embassy_time_driver::now, crate::verif::support::vnow)]
#[kani::stub(embassy_time_driver::schedule_wake, crate::verif::support::vschedule_wake)]
pub fn c16_sdo_read_any_reply() {
    let (_tx, _rx, pdu_loop) = STORAGE.try_split().unwrap();
    let md = MainDevice::new(pdu_loop, Timeouts::default(), MainDeviceConfig::default());
    set_now(0);
    let reply: [u8; 24] = kani::any();
    unsafe {
        REPLY = reply;
        MAX_CALLS = 8;
        REQ_SEEN = false;
    }
    install(dev);
    let sd = mk_sd();
    let r = SubDeviceRef::new(&md, 0x1001, &sd);
    let index: u16 = kani::any();
    let res = run_ready(r.sdo_read::<u32>(index, 1u8));
    kani::cover!(res.is_ok());
    kani::cover!(matches!(res, Err(Error::Mailbox(MailboxError::Aborted { .. }))));
    kani::cover!(matches!(res, Err(Error::Mailbox(MailboxError::SdoResponseInvalid { .. }))));
    // the request that reached the device names the object that was asked for
    if unsafe { REQ_SEEN } {
        let q = unsafe { REQ };
        assert!(u16::from_le_bytes([q[9], q[10]]) == index && q[11] == 1);
    }
    if let Ok(v) = res {
        // a value is only returned for a CoE response naming the requested object
        assert!(reply[5] & 0x0f == 0x03);
        assert!(u16::from_le_bytes([reply[9], reply[10]]) == index && reply[11] == 1);
        // expedited 4-byte upload: the value is the object's bytes
        if reply[8] & 0x02 != 0 && (reply[8] >> 2) & 0x03 == 0 {
            assert!(v == u32::from_le_bytes([reply[12], reply[13], reply[14], reply[15]]));
        }
    }
}

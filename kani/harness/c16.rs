// NOT RUN (tier: off): each harness in this file drives a whole mailbox / SII exchange (4-5 nested
// async levels, >= 5 PDUs) through the H1 scripted device. Measured: c15_sdo_read_expedited (one
// expedited upload, concrete well-formed reply) did not finish in 50 min / 11 GB. They are kept as
// documentation of what was attempted; C15 and C16 are listed as not applicable for this reason.
//
// C16: no mailbox reply can crash the MainDevice or make it read out of bounds.
// C15 (partly): expedited SDO upload delivers the object's bytes; abort / wrong-object replies are errors.
//
// The SubDevice is the scripted device behind H1: SM status registers answer "in-mailbox free,
// out-mailbox full", the out-mailbox content is FULLY SYMBOLIC (24 bytes).
use crate::{
    Command, MainDevice, MainDeviceConfig, PduStorage, Timeouts,
    command::{Reads, Writes},
    error::{Error, MailboxError},
    subdevice::{Mailbox, SubDeviceRef},
    verif::{h1::*, support::*},
};

const MBX_LEN: u16 = 24;
const WR_ADDR: u16 = 0x1000;
const RD_ADDR: u16 = 0x1080;
const SM_WR_STATUS: u16 = 0x0805; // SM0
const SM_RD_STATUS: u16 = 0x080d; // SM1

static mut REPLY: [u8; 24] = [0; 24];
static mut MAX_CALLS: usize = 8;
static mut REQ: [u8; 16] = [0; 16];
static mut REQ_SEEN: bool = false;
static mut RD_WKC: u16 = 1;

fn dev(req: &H1Request, resp: &mut H1Response) {
    unsafe {
        // exchanges beyond the budget are outside the claim
        kani::assume(CALLS <= MAX_CALLS);
    }
    resp.wkc = 1;
    match req.command {
        Command::Read(Reads::Fprd { register, .. }) => {
            if register == SM_RD_STATUS {
                // stale-mailbox check (first read) says empty, later reads say "response waiting"
                let first = unsafe { CALLS } == 1;
                resp.data[0] = if first { 0x00 } else { 0x08 };
            } else if register == SM_WR_STATUS {
                resp.data[0] = 0x00;
            } else if register == RD_ADDR {
                resp.wkc = unsafe { RD_WKC };
                let mut i = 0;
                while i < 24 {
                    resp.data[i] = unsafe { REPLY[i] };
                    i += 1;
                }
            }
        }
        Command::Write(Writes::Fpwr { register, .. }) => {
            if register == WR_ADDR {
                unsafe {
                    let mut i = 0;
                    while i < 16 {
                        REQ[i] = req.data[i];
                        i += 1;
                    }
                    REQ_SEEN = true;
                }
            }
        }
        _ => {}
    }
}

fn mk_sd() -> crate::SubDevice {
    let mut sd = mk_subdevice(0x1001, 0);
    sd.config.mailbox.write = Some(Mailbox { address: WR_ADDR, len: MBX_LEN, sync_manager: 0 });
    sd.config.mailbox.read = Some(Mailbox { address: RD_ADDR, len: MBX_LEN, sync_manager: 1 });
    sd.config.mailbox.has_coe = true;
    sd
}

static STORAGE: PduStorage<1, 32> = PduStorage::new();

//@ harness: c16_sdo_read_any_reply
//@ property: C16
//@ tier: off
//@ config: h1
//@ unwind: 4
//@ timeout: 3000
//@ functions: SubDeviceRef::sdo_read; Coe::sdo_read; Coe::mailbox_write_read; Coe::wait_for_mailboxes; Coe::wait_for_mailbox_response; HeadersRaw::unpack_from_slice; SdoNormal::unpack_from_slice; CoeAbortCode::unpack_from_slice; ReceivedPdu::trim_front
//@ bounds: sdo_read::<u32> against a 24-byte out-mailbox with FULLY SYMBOLIC contents (every header field, every service/command code, lengths that lie); at most 8 PDUs (paths needing a second mailbox exchange are cut by assume)
//@ stubs: embassy_time_driver::now -> virtual clock (never advances: no timeout fires); schedule_wake -> no-op
//@ assumes: transport = H1 scripted device (response length = mailbox length); SM status script: out-mailbox empty before the request, full afterwards; > 8 PDUs cut
//@ outside: segmented continuation (second exchange), SDO-info fragments, mailbox sizes other than 24
#[kani::proof]
#[kani::unwind(4)]
#[kani::stub(embassy_time_driver::now, crate::verif::support::vnow)]
#[kani::stub(embassy_time_driver::schedule_wake, crate::verif::support::vschedule_wake)]
pub fn c16_sdo_read_any_reply() {
    let (_tx, _rx, pdu_loop) = STORAGE.try_split().unwrap();
    let md = MainDevice::new(pdu_loop, Timeouts::default(), MainDeviceConfig::default());
    set_now(0);
    let reply: [u8; 24] = kani::any();
    unsafe {
        REPLY = reply;
        MAX_CALLS = 8;
        REQ_SEEN = false;
    }
    install(dev);
    let sd = mk_sd();
    let r = SubDeviceRef::new(&md, 0x1001, &sd);
    let index: u16 = kani::any();
    let res = run_ready(r.sdo_read::<u32>(index, 1u8));
    kani::cover!(res.is_ok());
    kani::cover!(matches!(res, Err(Error::Mailbox(MailboxError::Aborted { .. }))));
    kani::cover!(matches!(res, Err(Error::Mailbox(MailboxError::SdoResponseInvalid { .. }))));
    // the request that reached the device names the object that was asked for
    if unsafe { REQ_SEEN } {
        let q = unsafe { REQ };
        assert!(u16::from_le_bytes([q[9], q[10]]) == index && q[11] == 1);
    }
    if let Ok(v) = res {
        // a value is only returned for a CoE response naming the requested object
        assert!(reply[5] & 0x0f == 0x03);
        assert!(u16::from_le_bytes([reply[9], reply[10]]) == index && reply[11] == 1);
        // expedited 4-byte upload: the value is the object's bytes
        if reply[8] & 0x02 != 0 && (reply[8] >> 2) & 0x03 == 0 {
            assert!(v == u32::from_le_bytes([reply[12], reply[13], reply[14], reply[15]]));
        }
    }
}

// ---- C14: DeviceEeprom::write_word retries a word while the device reports a command error ------
static mut ERRORS_LEFT: u32 = 0;
static mut WORD_WRITES: u32 = 0;
static mut LAST_WORD: [u8; 2] = [0; 2];
static mut LAST_WORD_ADDR: u16 = 0;
static mut CMD_ERR: bool = false;

fn sii_dev(req: &H1Request, resp: &mut H1Response) {
    resp.wkc = 1;
    match req.command {
        Command::Read(Reads::Fprd { register, .. }) => {
            if register == 0x0502 {
                // never busy; command error flag as left by the last write command
                resp.data[0] = 0;
                resp.data[1] = if unsafe { CMD_ERR } { 0x20 } else { 0 };
            }
        }
        Command::Write(Writes::Fpwr { register, .. }) => unsafe {
            if register == 0x0508 {
                LAST_WORD = [req.data[0], req.data[1]];
            } else if register == 0x0502 {
                // control + address: a write command for one word
                WORD_WRITES += 1;
                LAST_WORD_ADDR = u16::from_le_bytes([req.data[2], req.data[3]]);
                if ERRORS_LEFT > 0 {
                    ERRORS_LEFT -= 1;
                    CMD_ERR = true;
                } else {
                    CMD_ERR = false;
                }
            }
        },
        _ => {}
    }
}

//@ harness: c14_write_word_retry
//@ property: C14
//@ tier: off
//@ config: h1
//@ unwind: 24
//@ timeout: 3000
//@ functions: DeviceEeprom::write_word; DeviceEeprom::wait_while_busy; WrappedWrite::send; WrappedRead::receive; SiiRequest::write; SiiControl::unpack_from_slice
//@ bounds: one word written to a device that answers k in {19, 20, 21, 22} (symbolic) consecutive command errors and is never busy: the word is issued min(k, 20) + 1 times (one attempt plus at most 20 retries) with the same data and address, and the call returns
//@ stubs: embassy_time_driver::now -> virtual clock (never advances); schedule_wake -> no-op
//@ assumes: transport = H1 scripted SII device; k below 19 is the same loop with fewer iterations
#[kani::proof]
#[kani::unwind(24)]
#[kani::stub(embassy_time_driver::now, crate::verif::support::vnow)]
#[kani::stub(embassy_time_driver::schedule_wake, crate::verif::support::vschedule_wake)]
pub fn c14_write_word_retry() {
    use crate::eeprom::{EepromDataProvider, device_provider::DeviceEeprom};
    let (_tx, _rx, pdu_loop) = STORAGE.try_split().unwrap();
    let md = MainDevice::new(pdu_loop, Timeouts::default(), MainDeviceConfig::default());
    set_now(0);
    let k: u32 = kani::any();
    kani::assume(k >= 19 && k <= 22);
    unsafe {
        ERRORS_LEFT = k;
        WORD_WRITES = 0;
        CMD_ERR = false;
    }
    install(sii_dev);
    let word: u16 = kani::any();
    let data: [u8; 2] = kani::any();
    let mut e = DeviceEeprom::new(&md, 0x1001);
    let r = run_ready(e.write_word(word, data));
    kani::cover!(k == 20);
    assert!(r.is_ok());
    let n = unsafe { WORD_WRITES };
    let expect = if k < 20 { k + 1 } else { 21 };
    assert!(n == expect);
    assert!(unsafe { LAST_WORD } == data && unsafe { LAST_WORD_ADDR } == word);
}


// ---- C15/C11: expedited upload of a 4-byte object; the read that fetches the response is checked --
//@ harness: c15_sdo_read_expedited
//@ property: C15, C11
//@ tier: off
//@ config: h1
//@ unwind: 4
//@ timeout: 3000
//@ functions: SubDeviceRef::sdo_read; Coe::sdo_read; Coe::mailbox_write_read; Coe::wait_for_mailboxes; Coe::wait_for_mailbox_response; SdoNormal::upload; SubDevice::mailbox_counter
//@ bounds: one expedited upload of a 4-byte object (symbolic index, sub-index 1, symbolic data bytes) from a 24-byte mailbox; the working counter of the datagram that fetches the response is symbolic
//@ stubs: embassy_time_driver::now -> virtual clock (never advances); schedule_wake -> no-op
//@ assumes: transport = H1 scripted device; SM status script as in c16_sdo_read_any_reply
//@ outside: normal and segmented uploads, downloads, other object sizes, mailbox sizes other than 24
#[kani::proof]
#[kani::unwind(4)]
#[kani::stub(embassy_time_driver::now, crate::verif::support::vnow)]
#[kani::stub(embassy_time_driver::schedule_wake, crate::verif::support::vschedule_wake)]
pub fn c15_sdo_read_expedited() {
    let (_tx, _rx, pdu_loop) = STORAGE.try_split().unwrap();
    let md = MainDevice::new(pdu_loop, Timeouts::default(), MainDeviceConfig::default());
    set_now(0);
    let index: u16 = kani::any();
    let obj: [u8; 4] = kani::any();
    let wkc: u16 = kani::any();
    // a well-formed expedited upload response for (index, 1): mailbox header (len 10, CoE),
    // CoE header (SDO response), SDO header (expedited, size indicated, 4 bytes, upload response)
    let mut reply = [0u8; 24];
    reply[0] = 10;
    reply[5] = 0x03;
    reply[7] = 0x30;
    reply[8] = 0x43;
    reply[9] = index.to_le_bytes()[0];
    reply[10] = index.to_le_bytes()[1];
    reply[11] = 1;
    reply[12] = obj[0];
    reply[13] = obj[1];
    reply[14] = obj[2];
    reply[15] = obj[3];
    unsafe {
        REPLY = reply;
        MAX_CALLS = 8;
        REQ_SEEN = false;
        RD_WKC = wkc;
    }
    install(dev);
    let sd = mk_sd();
    let r = SubDeviceRef::new(&md, 0x1001, &sd);
    let res = run_ready(r.sdo_read::<u32>(index, 1u8));
    kani::cover!(res.is_ok());
    kani::cover!(res.is_err());
    if wkc == 1 {
        // exactly the object's bytes
        assert!(res == Ok(u32::from_le_bytes(obj)));
    } else {
        // the device did not service the read that fetches the response: no data, wkc error
        assert!(res == Err(Error::WorkingCounter { expected: 1, received: wkc }));
    }
    // the request carried the right index/sub-index and mailbox counter 1 (first request)
    let q = unsafe { REQ };
    assert!(u16::from_le_bytes([q[9], q[10]]) == index && q[11] == 1);
    assert!(q[5] >> 4 == 1);
}

// c06 harnesses

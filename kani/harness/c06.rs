// C06: deadlines and retries — bounded, exact, and safe to hit at any moment.
//
// Time is a harness variable: embassy_time_driver::now is stubbed by a virtual clock which the
// harness advances between steps, so "the deadline passes here" is a choice of the model.
use crate::{
    Command, PduStorage, RetryBehaviour,
    error::{Error, TimeoutError},
    pdu_loop::{VERIF_FIRST_PDU_EMPTY as FIRST_PDU_EMPTY, VerifFrameState as FrameState},
    verif::{c02::pdu_timeout, support::*},
};
use core::{future::Future, pin::pin, task::{Context, Poll}};

const FRAME: usize = 32; // 16 bytes of datagram area: one FPRD with 2 data bytes (14 bytes)

fn retries_from(choice: u8) -> usize {
    match choice {
        0 => RetryBehaviour::None.retry_count(),
        1 => RetryBehaviour::Count(0).retry_count(),
        2 => RetryBehaviour::Count(1).retry_count(),
        _ => RetryBehaviour::Count(2).retry_count(),
    }
}

fn timeout_count(max_choice: u8) {
    static STORAGE: PduStorage<1, FRAME> = PduStorage::new();
    let (mut tx, _rx, pdu_loop) = STORAGE.try_split().unwrap();
    let w = noop_waker();
    let mut cx = Context::from_waker(&w);
    set_now(0);
    let choice: u8 = kani::any();
    kani::assume(choice <= max_choice);
    let r = retries_from(choice);
    let mut frame = pdu_loop.alloc_frame().unwrap();
    let _h = frame.push_pdu(Command::fprd(kani::any(), 0x0130).into(), (), Some(2)).unwrap();
    let mut fut = pin!(frame.mark_sendable(&pdu_loop, pdu_timeout(), r));

    let mut first = [0u8; 30];
    let mut sends = 0usize;
    let mut now = 0u64;
    let mut result = None;
    let mut round = 0;
    // every transmission is lost; TX services the frame before each deadline (property's assumption)
    while round < 4 {
        match fut.as_mut().poll(&mut cx) {
            Poll::Ready(x) => {
                result = Some(x);
                break;
            }
            Poll::Pending => {
                // never hanging: a pending request always has a wake-up registered for a deadline
                // that is still ahead (nothing else will poll it again if every response is lost)
                assert!(last_wake_at() > now);
            }
        }
        if let Some(sf) = tx.next_sendable_frame() {
            let res = sf.send_blocking(|b| {
                assert!(b.len() == 30);
                let mut i = 0;
                while i < 30 {
                    if sends == 0 {
                        first[i] = b[i];
                    } else {
                        // every retransmission is byte-identical to the first
                        assert!(b[i] == first[i]);
                    }
                    i += 1;
                }
                Ok(b.len())
            });
            assert!(res.is_ok());
            sends += 1;
        }
        // still pending before the deadline ...
        assert!(fut.as_mut().poll(&mut cx).is_pending());
        // ... then the deadline (1000 us) passes
        now += 1001;
        set_now(now);
        round += 1;
    }
    kani::cover!(choice == max_choice && result.is_some());
    // never hangs, never succeeds: PDU timeout after exactly 1 + retries transmissions
    match result {
        Some(Err(e)) => assert!(e == Error::Timeout(TimeoutError::Pdu)),
        _ => panic!("request without response did not resolve to a timeout"),
    }
    assert!(sends == 1 + r);
    let s = slot(&pdu_loop, 0);
    assert!(s.state == FrameState::None);
    // a released slot must not keep answering to the index of the request it held (C01: a stale
    // index in a free slot shadows a later request with the same 8-bit index in a higher slot)
    assert!(s.first_pdu == FIRST_PDU_EMPTY);
    assert!(pdu_loop.alloc_frame().is_ok());
}

//@ harness: c06_timeout_count_q
//@ property: C06, C03
//@ tier: quick
//@ unwind: 8
//@ unwindset: timeout_count:32
//@ timeout: 1500
//@ functions: ReceiveFrameFut::poll; ReceiveFrameFut::release; timer_factory::timer; embassy_time::Timer::poll; RetryBehaviour::retry_count; PduTx::next_sendable_frame; SendableFrame::send_blocking; PduLoop::wake_sender
//@ bounds: 1 slot; retry policies None, Count(0), Count(1); every transmission lost; virtual clock steps past each 1000us deadline
//@ stubs: embassy_time_driver::now -> virtual clock; embassy_time_driver::schedule_wake -> no-op
//@ assumes: the transmit task services every sendable frame before the next deadline (property's own assumption)
#[kani::proof]
#[kani::unwind(8)]
#[kani::stub(embassy_time_driver::now, crate::verif::support::vnow)]
#[kani::stub(embassy_time_driver::schedule_wake, crate::verif::support::vschedule_wake)]
pub fn c06_timeout_count_q() {
    timeout_count(2);
}

//@ harness: c06_timeout_count_t
//@ property: C06
//@ tier: thorough
//@ unwind: 8
//@ unwindset: timeout_count:32
//@ timeout: 2400
//@ functions: ReceiveFrameFut::poll; RetryBehaviour::retry_count; SendableFrame::send_blocking
//@ bounds: as c06_timeout_count_q with Count(2) added (3 transmissions)
//@ stubs: embassy_time_driver::now -> virtual clock; embassy_time_driver::schedule_wake -> no-op
//@ assumes: the transmit task services every sendable frame before the next deadline
#[kani::proof]
#[kani::unwind(8)]
#[kani::stub(embassy_time_driver::now, crate::verif::support::vnow)]
#[kani::stub(embassy_time_driver::schedule_wake, crate::verif::support::vschedule_wake)]
pub fn c06_timeout_count_t() {
    timeout_count(3);
}

// A response that is already there when the deadline is examined wins; Forever never gives up.
//@ harness: c06_poll_step
//@ property: C06
//@ tier: quick
//@ unwind: 8
//@ timeout: 1200
//@ functions: ReceiveFrameFut::poll; ReceiveFrameFut::release; timer_factory::timer; embassy_time::Timer::poll
//@ bounds: one poll of a future whose slot is forged into each state reachable while it is alive (Sendable, Sending, Sent, RxBusy, RxDone) and every other state; symbolic "deadline passed" flag; retries_left in {0, 1, usize::MAX}
//@ stubs: embassy_time_driver::now -> virtual clock; embassy_time_driver::schedule_wake -> no-op
#[kani::proof]
#[kani::unwind(8)]
#[kani::stub(embassy_time_driver::now, crate::verif::support::vnow)]
#[kani::stub(embassy_time_driver::schedule_wake, crate::verif::support::vschedule_wake)]
pub fn c06_poll_step() {
    static STORAGE: PduStorage<1, FRAME> = PduStorage::new();
    let (_tx, _rx, pdu_loop) = STORAGE.try_split().unwrap();
    let w = noop_waker();
    let mut cx = Context::from_waker(&w);
    set_now(0);
    let rc: u8 = kani::any();
    let r = match rc % 3 {
        0 => 0,
        1 => 1,
        _ => RetryBehaviour::Forever.retry_count(),
    };
    let mut frame = pdu_loop.alloc_frame().unwrap();
    let _h = frame.push_pdu(Command::fprd(0x1000, 0x0130).into(), (), Some(2)).unwrap();
    let mut fut = pin!(frame.mark_sendable(&pdu_loop, pdu_timeout(), r));
    // first poll registers the timer (embassy timers never fire on their first poll)
    assert!(fut.as_mut().poll(&mut cx).is_pending());
    // the slot is in an arbitrary state when the future is polled again (whatever TX/RX did meanwhile)
    let pre = slot(&pdu_loop, 0);
    let st = any_state();
    forge(&pdu_loop, 0, Slot { state: st, ..pre });
    let expired: bool = kani::any();
    if expired {
        set_now(5000);
    }
    let res = fut.as_mut().poll(&mut cx);
    let post = slot(&pdu_loop, 0);
    kani::cover!(st == FrameState::RxDone && expired);
    kani::cover!(st == FrameState::Sent && expired && r == 0);
    kani::cover!(st == FrameState::Sent && expired && r == usize::MAX);
    match st {
        FrameState::RxDone => {
            // a response already received wins over the deadline
            assert!(matches!(res, Poll::Ready(Ok(_))));
            assert!(post.state == FrameState::RxProcessing);
        }
        FrameState::Sendable | FrameState::Sending | FrameState::Sent | FrameState::RxBusy => {
            if !expired {
                assert!(res.is_pending() && post == Slot { state: st, ..pre });
            } else if r == 0 {
                assert!(matches!(res, Poll::Ready(Err(Error::Timeout(TimeoutError::Pdu)))));
            } else {
                // retry: still pending, frame offered to TX again, contents untouched, and a wake-up
                // for the NEW deadline is registered (otherwise nothing ever polls the request again)
                assert!(res.is_pending());
                assert!(last_wake_at() > 5000);
                assert!(post.state == FrameState::Sendable);
                assert!(post.first_pdu == pre.first_pdu && post.payload_len == pre.payload_len);
            }
        }
        _ => {
            // states the future can never legitimately observe: reported as an error, never Ok
            assert!(!matches!(res, Poll::Ready(Ok(_))));
        }
    }
}

// Abandonment while the transmit side is inside the buffer: the future is dropped from within the
// send closure (state Sending). Afterwards the slot must not be lost for good.
//@ harness: c06_drop_in_sending
//@ property: C06, C03
//@ tier: quick
//@ unwind: 8
//@ timeout: 1200
//@ functions: ReceiveFrameFut::drop; ReceiveFrameFut::release; SendableFrame::send_blocking; SendableFrame::mark_sent; SendableFrame::release_sending_claim; PduLoop::alloc_frame
//@ bounds: 1 slot; the awaiting future is dropped while TX is inside send_blocking; send outcome symbolic (ok / partial / error); optionally a competitor allocates+drops a frame in the same window
//@ stubs: embassy_time_driver::now -> virtual clock; embassy_time_driver::schedule_wake -> no-op
#[kani::proof]
#[kani::unwind(8)]
#[kani::stub(embassy_time_driver::now, crate::verif::support::vnow)]
#[kani::stub(embassy_time_driver::schedule_wake, crate::verif::support::vschedule_wake)]
pub fn c06_drop_in_sending() {
    static STORAGE: PduStorage<1, FRAME> = PduStorage::new();
    let (mut tx, _rx, pdu_loop) = STORAGE.try_split().unwrap();
    set_now(0);
    let mut frame = pdu_loop.alloc_frame().unwrap();
    let _h = frame.push_pdu(Command::fprd(0x1000, 0x0130).into(), (), Some(2)).unwrap();
    let mut fut = Some(frame.mark_sendable(&pdu_loop, pdu_timeout(), 0));
    let sf = tx.next_sendable_frame().unwrap();
    let outcome: u8 = kani::any();
    let competitor: bool = kani::any();
    let _ = sf.send_blocking(|b| {
        // the caller gives up (task cancelled / outer timeout) while TX is inside the buffer
        fut = None;
        if competitor {
            // another request claims the freed slot and is abandoned before being marked sendable
            let f2 = pdu_loop.alloc_frame();
            drop(f2);
        }
        match outcome {
            0 => Ok(b.len()),
            1 => Ok(b.len() - 1),
            _ => Err(Error::SendFrame),
        }
    });
    kani::cover!(competitor && outcome == 0);
    // every handle is gone now: the slot must be allocatable again (not lost for good)
    assert!(pdu_loop.alloc_frame().is_ok());
}


// The awaiting future is dropped (task cancelled, outer timeout, select) while its slot is in any
// state it can be in outside the TX/RX windows: the slot is returned at once, with no stale index.
//@ harness: c03_drop_future_any_state
//@ property: C03, C06, C01
//@ tier: quick
//@ unwind: 8
//@ functions: ReceiveFrameFut::drop; ReceiveFrameFut::release; CreatedFrame::drop; PduLoop::alloc_frame
//@ bounds: 1 slot; the future of a queued request is dropped with the slot forged into Sendable, Sent or RxDone (symbolic), polled or not polled before (symbolic); and a CreatedFrame with one pushed datagram is dropped before being marked sendable
//@ stubs: embassy_time_driver::now -> virtual clock; schedule_wake -> no-op
//@ outside: drop while TX / RX is inside the buffer (c06_drop_in_sending, c06_rx_window)
#[kani::proof]
#[kani::unwind(8)]
#[kani::stub(embassy_time_driver::now, crate::verif::support::vnow)]
#[kani::stub(embassy_time_driver::schedule_wake, crate::verif::support::vschedule_wake)]
pub fn c03_drop_future_any_state() {
    static STORAGE: PduStorage<1, FRAME> = PduStorage::new();
    let (_tx, _rx, pdu_loop) = STORAGE.try_split().unwrap();
    let w = noop_waker();
    let mut cx = Context::from_waker(&w);
    set_now(0);
    pdu_loop.verif_storage_ref().verif_set_cursors(0, kani::any());
    let mut frame = pdu_loop.alloc_frame().unwrap();
    let _h = frame.push_pdu(Command::fprd(0x1000, 0x0130).into(), (), Some(2)).unwrap();
    if kani::any() {
        // claimed, filled, never marked sendable
        drop(frame);
    } else {
        let mut fut = pin!(Some(frame.mark_sendable(&pdu_loop, pdu_timeout(), kani::any())));
        if kani::any() {
            assert!(fut.as_mut().as_pin_mut().unwrap().poll(&mut cx).is_pending());
        }
        let pre = slot(&pdu_loop, 0);
        let st = match kani::any::<u8>() % 3 {
            0 => FrameState::Sendable,
            1 => FrameState::Sent,
            _ => FrameState::RxDone,
        };
        forge(&pdu_loop, 0, Slot { state: st, ..pre });
        kani::cover!(st == FrameState::RxDone);
        fut.set(None);
    }
    let s = slot(&pdu_loop, 0);
    assert!(s.state == FrameState::None);
    assert!(s.first_pdu == FIRST_PDU_EMPTY);
    assert!(pdu_loop.alloc_frame().is_ok());
}

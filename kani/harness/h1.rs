// H1: scripted device behind MainDevice::single_pdu (only wired in with --cfg ethercrab_verif_h1).
//
// The transport contract the stub honours is what the PDU-loop harnesses establish on the real
// transport (C01/C05): the returned view has the length of the response's length field and shows
// exactly the data and working counter the network produced.
use crate::{Command, error::Error, pdu_loop::ReceivedPdu};
use ethercrab_wire::EtherCrabWireWrite;

pub const H1_MAX: usize = 64;

pub struct H1Request {
    pub command: Command,
    pub data: [u8; H1_MAX],
    /// Bytes of `data` that were supplied by the caller.
    pub data_len: usize,
    /// Length field of the datagram on the wire: max(len_override, data_len).
    pub wire_len: usize,
}

pub struct H1Response {
    /// Ok(len): response datagram carries `len` bytes of `data`. Err: transport-level failure.
    pub result: Result<usize, Error>,
    pub data: [u8; H1_MAX],
    pub wkc: u16,
}

pub static mut DEVICE: Option<fn(&H1Request, &mut H1Response)> = None;
pub static mut CALLS: usize = 0;
// Small ring so a view held across the next few PDUs keeps its bytes (the real transport gives each
// response its own slot while held).
static mut RESP_BUF: [[u8; H1_MAX]; 4] = [[0; H1_MAX]; 4];

pub fn install(dev: fn(&H1Request, &mut H1Response)) {
    unsafe {
        DEVICE = Some(dev);
        CALLS = 0;
    }
}

pub fn transport<'sto>(
    command: Command,
    data: &impl EtherCrabWireWrite,
    len_override: Option<u16>,
) -> Result<ReceivedPdu<'sto>, Error> {
    let data_len = data.packed_len();
    assert!(data_len <= H1_MAX, "verif: H1 scratch buffer too small");
    let mut req = H1Request {
        command,
        data: [0; H1_MAX],
        data_len,
        wire_len: len_override.map_or(data_len, |l| usize::from(l).max(data_len)),
    };
    data.pack_to_slice_unchecked(&mut req.data[..data_len]);
    let mut resp = H1Response { result: Ok(req.wire_len), data: req.data, wkc: 0 };
    unsafe {
        CALLS += 1;
        match DEVICE {
            Some(dev) => dev(&req, &mut resp),
            None => panic!("verif: no H1 device installed"),
        }
    }
    let len = resp.result?;
    assert!(len <= H1_MAX, "verif: scripted response too long");
    unsafe {
        let k = CALLS % 4;
        RESP_BUF[k] = resp.data;
        let ring: &'static [[u8; H1_MAX]; 4] = &*core::ptr::addr_of!(RESP_BUF);
        let buf: &'static [u8; H1_MAX] = &ring[k];
        Ok(ReceivedPdu::verif_from_raw(&buf[..len], resp.wkc))
    }
}

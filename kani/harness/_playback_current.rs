// placeholder: overwritten by /verif/check when a counterexample is replayed

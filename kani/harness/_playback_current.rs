/// Test generated for harness `verif::c13::c13_size` 
///
/// Check for `cover`: "cover condition: r.is_ok()"

#[test]
fn kani_concrete_playback_c13_size_15610575615990033400() {
    let concrete_vals: Vec<Vec<u8>> = vec![
        // 255
        vec![255],
        // 0
        vec![0],
        // 255
        vec![255],
        // 0
        vec![0],
        // 255
        vec![255],
        // 0
        vec![0],
        // 255
        vec![255],
        // 0
        vec![0],
    ];
    kani::concrete_playback_run(concrete_vals, crate::verif::c13::c13_size);
}

/// Test generated for harness `verif::c13::c13_size` 
///
/// Check for `assertion`: "attempt to add with overflow"

#[test]
fn kani_concrete_playback_c13_size_7440535670560752853() {
    let concrete_vals: Vec<Vec<u8>> = vec![
        // 255
        vec![255],
        // 255
        vec![255],
        // 255
        vec![255],
        // 255
        vec![255],
        // 255
        vec![255],
        // 255
        vec![255],
        // 255
        vec![255],
        // 255
        vec![255],
    ];
    kani::concrete_playback_run(concrete_vals, crate::verif::c13::c13_size);
}

/// Test generated for harness `verif::c13::c13_size` 
///
/// Check for `assertion`: "attempt to multiply with overflow"

#[test]
fn kani_concrete_playback_c13_size_16929729347280540561() {
    let concrete_vals: Vec<Vec<u8>> = vec![
        // 255
        vec![255],
        // 1
        vec![1],
        // 0
        vec![0],
        // 0
        vec![0],
        // 0
        vec![0],
        // 0
        vec![0],
        // 0
        vec![0],
        // 0
        vec![0],
    ];
    kani::concrete_playback_run(concrete_vals, crate::verif::c13::c13_size);
}

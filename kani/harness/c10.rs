// C10: a group's typestate never claims a state its SubDevices are not in — summary predicates.
use crate::{SubDeviceState, TxRxResponse};

fn any_sd_state() -> SubDeviceState {
    // what AlControl can decode from the 4-bit AL state field
    let n: u8 = kani::any();
    kani::assume(n < 16);
    match n {
        0 => SubDeviceState::None,
        1 => SubDeviceState::Init,
        2 => SubDeviceState::PreOp,
        3 => SubDeviceState::Bootstrap,
        4 => SubDeviceState::SafeOp,
        8 => SubDeviceState::Op,
        n => SubDeviceState::Other(n),
    }
}

fn is_plain(s: SubDeviceState) -> bool {
    matches!(s, SubDeviceState::Init | SubDeviceState::PreOp | SubDeviceState::SafeOp | SubDeviceState::Op)
}

//@ harness: c10_summaries
//@ property: C10
//@ tier: quick
//@ unwind: 6
//@ functions: TxRxResponse::group_state; TxRxResponse::group_in_single_state; TxRxResponse::is_in_state; TxRxResponse::all_op
//@ bounds: state lists of length 0..=3, every entry any value of the 4-bit AL state field (16 values incl. Bootstrap, None and undefined codes); requested state any of the four unambiguous states
//@ assumes: exactness (iff) is asserted for lists made of INIT/PRE-OP/SAFE-OP/OP; for lists containing Bootstrap or undefined codes soundness is asserted (a summary never claims the requested state while any member reported something else); the code 0 (SubDeviceState::None) is invisible to the bitmap summaries by construction and excluded
#[kani::proof]
#[kani::unwind(6)]
pub fn c10_summaries() {
    let n: usize = kani::any();
    kani::assume(n <= 3);
    let mut v = heapless::Vec::<SubDeviceState, 3>::new();
    let mut all_plain = true;
    let mut i = 0;
    while i < n {
        let s = any_sd_state();
        all_plain &= is_plain(s);
        let _ = v.push(s);
        i += 1;
    }
    let states = v.clone();
    let resp = TxRxResponse::<3, ()> { working_counter: 0, subdevice_states: v, extra: () };
    let want = match kani::any::<u8>() % 4 {
        0 => SubDeviceState::Init,
        1 => SubDeviceState::PreOp,
        2 => SubDeviceState::SafeOp,
        _ => SubDeviceState::Op,
    };
    // set-theoretic reference
    let mut all_want = n > 0;
    let mut all_op = n > 0;
    let mut all_same = n > 0;
    let mut any_other_plain_than_want = false;
    let mut i = 0;
    while i < n {
        all_want &= states[i] == want;
        all_op &= states[i] == SubDeviceState::Op;
        all_same &= states[i] == states[0];
        // any reported state other than the requested one counts, defined or not; only the code 0
        // ("no state known") is invisible to the bitmap summaries by construction and is excluded
        any_other_plain_than_want |= states[i] != want && states[i] != SubDeviceState::None;
        i += 1;
    }
    kani::cover!(resp.all_op());
    kani::cover!(n == 3 && resp.is_in_state(want));
    kani::cover!(resp.group_in_single_state().is_none());
    if all_plain {
        assert!(resp.is_in_state(want) == all_want);
        assert!(resp.all_op() == all_op);
        match resp.group_in_single_state() {
            Some(s) => assert!(n == 0 && s == SubDeviceState::None || all_same && s == states[0]),
            None => assert!(!all_same),
        }
    }
    // soundness for every list: a summary never claims `want` while a device reported another defined state
    if any_other_plain_than_want {
        assert!(!resp.is_in_state(want));
        assert!(resp.group_in_single_state() != Some(want));
        if want == SubDeviceState::Op {
            assert!(!resp.all_op());
        }
    }
}

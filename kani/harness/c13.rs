// C13: no EEPROM content can hang or crash the MainDevice.
use crate::{
    eeprom::{EepromDataProvider, EepromRange, types::CategoryType},
    error::Error,
    subdevice::VerifSubDeviceEeprom as SubDeviceEeprom,
    verif::support::*,
};
use embedded_io_async::Read;

/// Provider returning fresh arbitrary bytes for every access: over-approximates every image (and
/// every inconsistent re-read). Counts accesses.
#[derive(Clone)]
pub struct AnyProvider<const N: usize>;

pub struct Chunk<const N: usize> {
    buf: [u8; N],
}
impl<const N: usize> core::ops::Deref for Chunk<N> {
    type Target = [u8];
    fn deref(&self) -> &[u8] {
        &self.buf
    }
}

pub static mut READS: u32 = 0;
pub static mut LAST_ADDR: u16 = 0;

impl<const N: usize> EepromDataProvider for AnyProvider<N> {
    async fn read_chunk(
        &mut self,
        start_word: u16,
    ) -> Result<impl core::ops::Deref<Target = [u8]>, Error> {
        unsafe {
            READS += 1;
            LAST_ADDR = start_word;
        }
        let bytes: [u8; N] = kani::any();
        Ok(Chunk { buf: bytes })
    }
    async fn write_word(&mut self, _start_word: u16, _data: [u8; 2]) -> Result<(), Error> {
        Ok(())
    }
    async fn clear_errors(&self) -> Result<(), Error> {
        Ok(())
    }
}

//@ harness: c13_size
//@ property: C13, C12
//@ tier: quick
//@ unwind: 2
//@ functions: SubDeviceEeprom::size; SubDeviceEeprom::start_at; EepromRange::new; EepromRange::read; embedded_io_async::Read::read_exact
//@ bounds: one 2-byte read at word 0x3e; provider answers every access with 8 fresh symbolic bytes (all images)
#[kani::proof]
#[kani::unwind(2)]
pub fn c13_size() {
    let e = SubDeviceEeprom::new(AnyProvider::<8>);
    let r = run_ready(e.size());
    kani::cover!(r.is_ok());
    if let Ok(sz) = r {
        // C12: size reported equals (word+1) kbit in bytes
        assert!(sz >= 128 && sz % 128 == 0);
    }
}

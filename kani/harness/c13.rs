// C13: no EEPROM content can hang or crash the MainDevice.
//
// Every query runs over `AnyProvider`: each access returns FRESH symbolic bytes, which
// over-approximates every EEPROM image and every inconsistent re-read. Kani's automatic checks
// (overflow, index, unwrap, unreachable) are the oracle for "never panics / never indexes out of
// bounds"; Kani builds with overflow-checks=on, and an expression that cannot overflow in the
// checked build cannot wrap in the unchecked one, so one verdict covers both builds.
// Termination: the category walk advances its word address by >= 2 per hop without wrap (that is
// exactly the overflow check), so it ends after <= 32768 hops; harnesses cut the walk after BUDGET
// provider accesses (assume) and say so.
use crate::{
    eeprom::{EepromDataProvider, EepromRange, types::CategoryType},
    error::Error,
    subdevice::VerifSubDeviceEeprom as SubDeviceEeprom,
    verif::support::*,
};
use embedded_io_async::Read;

pub struct AnyProvider<const N: usize>(pub u8, pub u16);

// Each clone (the category walker, each range reader) starts its own address history.
impl<const N: usize> Clone for AnyProvider<N> {
    fn clone(&self) -> Self {
        AnyProvider(0, 0)
    }
}

pub struct Chunk<const N: usize> {
    pub buf: [u8; N],
}
impl<const N: usize> core::ops::Deref for Chunk<N> {
    type Target = [u8];
    fn deref(&self) -> &[u8] {
        &self.buf
    }
}

pub static mut READS: u32 = 0;
pub static mut BUDGET: u32 = 4;

impl<const N: usize> EepromDataProvider for AnyProvider<N> {
    async fn read_chunk(
        &mut self,
        start_word: u16,
    ) -> Result<impl core::ops::Deref<Target = [u8]>, Error> {
        // Termination monitor: one reader never goes back to a lower word address (a wrapped
        // category chain or cursor shows up here even where the arithmetic is unchecked).
        // self.0: 0 = no access yet, 1 = at least one access by this reader.
        if self.0 == 1 {
            assert!(start_word >= self.1);
        }
        self.0 = 1;
        self.1 = start_word;
        unsafe {
            READS += 1;
            // Paths needing more device accesses than the budget are outside the claim.
            kani::assume(READS <= BUDGET);
        }
        let bytes: [u8; N] = kani::any();
        Ok(Chunk { buf: bytes })
    }
    async fn write_word(&mut self, _start_word: u16, _data: [u8; 2]) -> Result<(), Error> {
        Ok(())
    }
    async fn clear_errors(&self) -> Result<(), Error> {
        Ok(())
    }
}

fn budget(n: u32) {
    unsafe {
        READS = 0;
        BUDGET = n;
    }
}

//@ harness: c13_size
//@ property: C13, C12
//@ tier: quick
//@ unwind: 2
//@ functions: SubDeviceEeprom::size; SubDeviceEeprom::start_at; EepromRange::new; EepromRange::read; embedded_io_async::Read::read_exact
//@ bounds: one 2-byte read at word 0x3e; 8-byte chunks; all 2^16 size words
#[kani::proof]
#[kani::unwind(2)]
pub fn c13_size() {
    budget(4);
    let e = SubDeviceEeprom::new(AnyProvider::<8>(0, 0));
    let r = run_ready(e.size());
    kani::cover!(r.is_ok());
    if let Ok(sz) = r {
        // C12: reported size is (word+1) Kibit = (word+1)*128 bytes, as a mathematical integer
        assert!(sz >= 128 && sz % 128 == 0 && sz <= 65536 * 128);
    }
}

//@ harness: c13_walk_8
//@ property: C13
//@ tier: quick
//@ unwind: 8
//@ timeout: 900
//@ functions: SubDeviceEeprom::items; SubDeviceEeprom::category; EepromRange::new; CategoryType::from
//@ bounds: category walk of <= 6 hops over arbitrary headers (type, length any u16); 8-byte chunks; longer walks cut by assume
//@ assumes: paths needing more than 6 provider accesses are cut (assume); termination beyond that rests on the proved absence of address wrap (+>=2 words per hop)
#[kani::proof]
#[kani::unwind(8)]
pub fn c13_walk_8() {
    budget(6);
    let e = SubDeviceEeprom::new(AnyProvider::<8>(0, 0));
    let r = run_ready(e.items::<crate::eeprom::types::SyncManager>(CategoryType::SyncManager));
    kani::cover!(r.is_ok());
    kani::cover!(unsafe { READS } == 6);
}

//@ harness: c13_walk_4
//@ property: C13
//@ tier: thorough
//@ unwind: 8
//@ timeout: 900
//@ functions: SubDeviceEeprom::items; SubDeviceEeprom::category; EepromRange::new
//@ bounds: as c13_walk_8 with 4-byte chunks
//@ assumes: paths needing more than 6 provider accesses are cut (assume)
#[kani::proof]
#[kani::unwind(8)]
pub fn c13_walk_4() {
    budget(6);
    let e = SubDeviceEeprom::new(AnyProvider::<4>(0, 0));
    let r = run_ready(e.items::<crate::eeprom::types::Pdo>(CategoryType::TxPdo));
    kani::cover!(r.is_ok());
}

//@ harness: c13_range_new_total
//@ property: C13
//@ tier: quick
//@ unwind: 2
//@ functions: EepromRange::new; EepromRange::skip_ahead_bytes
//@ bounds: every (start_word, len_words, skip) in u16^3 - complete for these two functions
#[kani::proof]
#[kani::unwind(2)]
pub fn c13_range_new_total() {
    let s: u16 = kani::any();
    let l: u16 = kani::any();
    let mut r = EepromRange::new(AnyProvider::<8>(0, 0), s, l);
    let (pos, end) = r.verif_state();
    // the window never starts after its end and starts at the requested word when representable
    assert!(pos <= end);
    if u32::from(s) * 2 <= 0xffff {
        assert!(u32::from(pos) == u32::from(s) * 2);
    }
    let k: u16 = kani::any();
    let res = r.skip_ahead_bytes(k);
    let (pos2, end2) = r.verif_state();
    kani::cover!(res.is_ok());
    kani::cover!(res.is_err());
    assert!(end2 == end);
    if res.is_ok() {
        assert!(u32::from(pos2) == u32::from(pos) + u32::from(k) && pos2 < end);
    } else {
        assert!(pos2 == pos);
    }
}

//@ harness: c13_read_byte_total
//@ property: C13
//@ tier: quick
//@ unwind: 2
//@ functions: EepromRange::read_byte
//@ bounds: every reachable range state (byte_pos <= end, any u16), both chunk sizes (two instantiations)
#[kani::proof]
#[kani::unwind(2)]
pub fn c13_read_byte_total() {
    budget(2);
    let pos: u16 = kani::any();
    let end: u16 = kani::any();
    kani::assume(pos <= end);
    let mut r = EepromRange::verif_from_state(AnyProvider::<8>(0, 0), pos, end);
    let a = run_ready(r.read_byte());
    kani::cover!(a.is_ok());
    let mut r4 = EepromRange::verif_from_state(AnyProvider::<4>(0, 0), pos, end);
    let b = run_ready(r4.read_byte());
    kani::cover!(b.is_ok());
}

//@ harness: c13_read_total_8
//@ property: C13
//@ tier: quick
//@ unwind: 3
//@ timeout: 900
//@ functions: EepromRange::read
//@ bounds: every range state (byte_pos <= end, any u16), destination length 0..=9 (symbolic), 8-byte chunks: <= 2 chunk reads
#[kani::proof]
#[kani::unwind(3)]
pub fn c13_read_total_8() {
    budget(3);
    let pos: u16 = kani::any();
    let end: u16 = kani::any();
    kani::assume(pos <= end);
    let mut r = EepromRange::verif_from_state(AnyProvider::<8>(0, 0), pos, end);
    let mut buf = [0u8; 9];
    let n: usize = kani::any();
    kani::assume(n <= 9);
    let res = run_ready(r.read(&mut buf[..n]));
    let (pos2, end2) = r.verif_state();
    kani::cover!(matches!(res, Ok(9)));
    kani::cover!(matches!(res, Ok(0)));
    match res {
        Ok(k) => {
            assert!(k <= n && k <= usize::from(end - pos));
            assert!(usize::from(pos2) == usize::from(pos) + k && end2 == end);
        }
        Err(_) => {}
    }
}

//@ harness: c13_read_total_4
//@ property: C13
//@ tier: thorough
//@ unwind: 4
//@ timeout: 1200
//@ functions: EepromRange::read
//@ bounds: as c13_read_total_8 with 4-byte chunks, destination 0..=9: <= 3 chunk reads
#[kani::proof]
#[kani::unwind(4)]
pub fn c13_read_total_4() {
    budget(4);
    let pos: u16 = kani::any();
    let end: u16 = kani::any();
    kani::assume(pos <= end);
    let mut r = EepromRange::verif_from_state(AnyProvider::<4>(0, 0), pos, end);
    let mut buf = [0u8; 9];
    let n: usize = kani::any();
    kani::assume(n <= 9);
    let res = run_ready(r.read(&mut buf[..n]));
    let (pos2, _end2) = r.verif_state();
    kani::cover!(matches!(res, Ok(9)));
    if let Ok(k) = res {
        assert!(k <= n && k <= usize::from(end - pos));
        assert!(usize::from(pos2) == usize::from(pos) + k);
    }
}

// Item/fixed-block consumers (CategoryIterator::next, identity, mailbox_config, general) are
// `read_exact` + `unpack_from_slice`. read_exact is the 10-line dependency loop over `read`;
// with two nested async levels its symbolic encoding needs > 40 GB / 15 min per call (measured),
// so those consumers are covered compositionally instead: `read` is total from EVERY cursor state
// (c13_read_total_*), and every item decoder is total on every buffer (c13_unpack_total).

//@ harness: c13_unpack_total
//@ property: C13
//@ tier: quick
//@ unwind: 20
//@ functions: SyncManager::unpack_from_slice; FmmuEx::unpack_from_slice; Pdo::unpack_from_slice; PdoEntry::unpack_from_slice; SiiGeneral::unpack_from_slice; DefaultMailbox::unpack_from_slice; SubDeviceIdentity::unpack_from_slice; FmmuUsage::try_from; CategoryType::from
//@ bounds: every byte string of exactly PACKED_LEN bytes for each EEPROM item type (complete)
#[kani::proof]
#[kani::unwind(20)]
pub fn c13_unpack_total() {
    use crate::eeprom::types::*;
    use ethercrab_wire::EtherCrabWireRead;
    let b: [u8; 18] = kani::any();
    let a = SyncManager::unpack_from_slice(&b[..8]);
    let _ = FmmuEx::unpack_from_slice(&b[..3]);
    let p = Pdo::unpack_from_slice(&b[..8]);
    let _ = PdoEntry::unpack_from_slice(&b[..8]);
    let g = SiiGeneral::unpack_from_slice(&b[..18]);
    let _ = DefaultMailbox::unpack_from_slice(&b[..10]);
    let _ = crate::subdevice::SubDeviceIdentity::unpack_from_slice(&b[..16]);
    let _ = FmmuUsage::try_from(b[0]);
    let _ = CategoryType::from(u16::from_le_bytes([b[0], b[1]]));
    kani::cover!(a.is_ok());
    kani::cover!(p.is_ok());
    kani::cover!(g.is_ok());
    kani::cover!(g.is_err());
}

//@ harness: c13_pdi_offset_total
//@ property: C13, C08
//@ tier: quick
//@ unwind: 2
//@ functions: PdiOffset::increment_byte_aligned; PdiOffset::increment; PdiOffset::up_to
//@ bounds: every u16 bit length (device-supplied PDO bit sums) from every offset below 2^31 - complete
#[kani::proof]
#[kani::unwind(2)]
pub fn c13_pdi_offset_total() {
    use crate::pdi::PdiOffset;
    let start: u32 = kani::any();
    kani::assume(start < 0x8000_0000);
    let bits: u16 = kani::any();
    let o = PdiOffset { start_address: start };
    let n = o.increment_byte_aligned(bits);
    kani::cover!(bits > 65528);
    // advances by ceil(bits / 8) bytes
    assert!(n.start_address - start == (u32::from(bits) + 7) / 8);
    let r = o.up_to(n);
    assert!(r.len() == ((usize::from(bits) + 7) / 8));
}

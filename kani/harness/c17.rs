// C17: topology and propagation delays are reconstructed correctly from port timestamps.
//
// Real code under check (all synchronous): dc::assign_parent_relationships (which drives
// dc::find_subdevice_parent, dc::configure_subdevice_offsets, Ports::{topology, entry_port,
// assign_next_downstream_port, port_assigned_to, total_propagation_time, propagation_time_to,
// intermediate_propagation_time_to, is_last_port}, SubDevice::is_child_of), reached through the
// add-only hook dc::verif_assign_parent_relationships. The state handed to it is exactly what
// MainDevice::init leaves behind after SubDevice::new + dc::latch_dc_times: index = position,
// parent_index = None, propagation_delay = 0, Ports::new(DL status link bits) + set_receive_times
// (only for DC-capable devices; others keep the all-zero times).
//
// Cost facts that shaped this file (measured): the iterator chains of ports.rs
// (filter/cycle/skip/take/min_by_key over 4 ports) become expensive as soon as a port time is
// symbolic, because the entry port (min_by_key) is then a symbolic pointer: one whole pass over 3
// devices = 5..11 min, over 4 devices with symbolic times > 14 GB. Hence three layers:
//  * per-function harnesses in an ARBITRARY surrounding state, which cover networks of any size by
//    induction over frame-processing order: c17_parent_* (find_subdevice_parent on all trees of
//    <= 6 devices), c17_ports_* (Ports methods), c17_step_* (configure_subdevice_offsets: one
//    device below a passthrough / fork / cross parent, arbitrary subtree below it, arbitrary
//    accumulator), c17_nopanic_parent_* / c17_nopanic_step / c17_ports_assign_any (error, not panic);
//  * whole passes of assign_parent_relationships with symbolic times where affordable:
//    c17_tree_chain3*; with symbolic link bits only: c17_nopanic_flags_*;
//  * whole passes on concrete non-DC line-ups as witnesses of the findings (c17_tree_nested_*,
//    c17_reject_overfull_*).
// Not covered: write_dc_parameters / configure_dc (system-time offset = now - dc_receive_time,
// first DC device returned as reference): the arithmetic is inline in async fns that send PDUs
// through MainDevice, there is no synchronous kernel to call.
//
// Time model (ESC datasheet section I, validated against the captures in dc.rs tests
// `propagation_delay_calc_fork/_cross`): a frame enters a device through port 0 at local time e
// (latched as port-0 time), is processed, then leaves/re-enters through the open ports in the
// order 3 -> 1 -> 2 and finally leaves through port 0. Every other open port latches the local
// time at which the frame comes BACK through it. With zero forwarding delay and a symmetric link
// delay d(k) to child k, the loop below a device is lp(i) = sum over children (2 d(k) + lp(k));
// the port of the j-th open slot latches e + sum of the first j child loops. Closed ports keep a
// stale arbitrary value (the captures show 1819436374, 1717989224, 0 there). All local times are
// u32 and wrap. The delay a device must be programmed with is the time the frame needs from the
// processing unit of the reference (first DC) device to its own processing unit: on a chain the
// sum of the link delays ("true one-way delay"), on a tree the frame-path delay.
use crate::{
    DcSupport, DcSync,
    dc::{
        verif_assign_parent_relationships as assign_parent_relationships,
        verif_configure_subdevice_offsets as configure_subdevice_offsets,
        verif_find_subdevice_parent as find_subdevice_parent,
    },
    error::Error,
    subdevice::{SubDevice, ports::Ports},
};
use core::{num::NonZeroU16, sync::atomic::AtomicU8};

/// A SubDevice as `SubDevice::new` produces it (no `Default` outside cfg(test)).
fn mk(index: u16, ports: Ports, dc: DcSupport) -> SubDevice {
    SubDevice {
        configured_address: 0x1000u16.wrapping_add(index),
        alias_address: 0,
        config: Default::default(),
        identity: Default::default(),
        name: heapless::String::new(),
        ports,
        dc_support: dc,
        dc_receive_time: 0,
        index,
        parent_index: None,
        propagation_delay: 0,
        mailbox_counter: AtomicU8::new(1),
        dc_sync: DcSync::Disabled,
        oversampling_config: &[],
    }
}

fn any_dc() -> DcSupport {
    match kani::any::<u8>() & 3 {
        0 => DcSupport::None,
        1 => DcSupport::RefOnly,
        2 => DcSupport::Bits64,
        _ => DcSupport::Bits32,
    }
}

fn any_dc_capable() -> DcSupport {
    let d = any_dc();
    kani::assume(d.any());
    d
}

// ------------------------------------------------------------------------------------------------
// Arbitrary reports: error, not panic
// ------------------------------------------------------------------------------------------------

/// Device with arbitrary link bits (at least `min_open` set, port 0 set if `p0`), arbitrary port
/// times, arbitrary DC flag.
fn any_report(index: u16, min_open: u8, p0: bool) -> SubDevice {
    let a: [bool; 4] = kani::any();
    let open = a[0] as u8 + a[1] as u8 + a[2] as u8 + a[3] as u8;
    kani::assume(open >= min_open);
    kani::assume(!p0 || a[0]);
    let t: [u32; 4] = kani::any();
    let mut p = Ports::new(a[0], a[1], a[2], a[3]);
    p.set_receive_times(t[0], t[1], t[2], t[3]);
    let mut d = mk(index, p, any_dc());
    d.dc_receive_time = kani::any();
    d
}

/// Delay never decreases in frame-processing order (all inputs, not only trees).
fn assert_monotone<const N: usize>(devs: &[SubDevice; N]) {
    let mut last = 0u32;
    let mut i = 0;
    while i < N {
        if devs[i].dc_support.any() {
            assert!(
                devs[i].propagation_delay >= last,
                "propagation delay decreases in frame-processing order"
            );
            last = devs[i].propagation_delay;
        }
        i += 1;
    }
}

/// Whole pass over N devices with arbitrary link bits, all non-DC (port times all zero as
/// SubDevice::new leaves them).
fn nopanic_flags<const N: usize>(min_open: u8) {
    let mut devs: [SubDevice; N] = core::array::from_fn(|i| {
        let a: [bool; 4] = kani::any();
        kani::assume(a[0] as u8 + a[1] as u8 + a[2] as u8 + a[3] as u8 >= min_open);
        mk(i as u16, Ports::new(a[0], a[1], a[2], a[3]), DcSupport::None)
    });
    let r = assign_parent_relationships(&mut devs);
    kani::cover!(r.is_ok());
    kani::cover!(matches!(r, Err(Error::Topology)));
}

//@ harness: c17_nopanic_flags_2
//@ property: C17
//@ tier: quick
//@ unwind: 8
//@ functions: dc::assign_parent_relationships; dc::find_subdevice_parent; Ports::topology; Ports::entry_port; Ports::assign_next_downstream_port
//@ bounds: whole pass over 2 SubDevices with arbitrary link bits (0..4 open ports each), all non-DC; 3 devices this way, or 2 devices with arbitrary port times as well, need > 10 GB / > 10 min (measured), those inputs are covered per function: c17_nopanic_parent_*, c17_nopanic_step, c17_ports_assign_any
//@ assumes: none
//@ outside: DC devices in a whole pass (c17_nopanic_step); PDU I/O of latch_dc_times / write_dc_parameters
//@ expect_fail: Ports::topology unreachable!("Invalid topology 0") on a device reporting no open port (finding F15)
#[kani::proof]
#[kani::unwind(8)]
pub fn c17_nopanic_flags_2() {
    nopanic_flags::<2>(0);
}

//@ harness: c17_nopanic_flags_open_2
//@ property: C17
//@ tier: quick
//@ unwind: 8
//@ functions: dc::assign_parent_relationships; dc::find_subdevice_parent; Ports::topology; Ports::entry_port; Ports::assign_next_downstream_port
//@ bounds: whole pass over 2 SubDevices with arbitrary link bits, all non-DC
//@ assumes: every device reports at least one open port (a device that answers has a link)
//@ outside: 0 open ports (c17_nopanic_flags_2); DC devices in a whole pass (c17_nopanic_step)
#[kani::proof]
#[kani::unwind(8)]
pub fn c17_nopanic_flags_open_2() {
    nopanic_flags::<2>(1);
}

/// find_subdevice_parent over arbitrary link bits.
fn nopanic_parent<const N: usize>(min_open: u8) {
    let devs: [SubDevice; N] = core::array::from_fn(|i| {
        let a: [bool; 4] = kani::any();
        kani::assume(a[0] as u8 + a[1] as u8 + a[2] as u8 + a[3] as u8 >= min_open);
        mk(i as u16, Ports::new(a[0], a[1], a[2], a[3]), any_dc())
    });
    let r = find_subdevice_parent(&devs[..N - 1], &devs[N - 1]);
    kani::cover!(matches!(r, Err(Error::Topology)));
    kani::cover!(r == Ok(Some(0)));
    match r {
        Ok(Some(i)) => assert!((i as usize) < N - 1, "parent is not an earlier device"),
        Ok(None) => assert!(false, "no parent although earlier devices exist"),
        Err(e) => assert!(e == Error::Topology),
    }
}

// (c17_nopanic_parent_5, which called find_subdevice_parent directly on devices with 0 open ports,
// was retired after finding C17-A was repaired: the repair validates every device at the top of
// assign_parent_relationships, so a 0-port device can no longer be an earlier "parent"; the no-panic
// clause for arbitrary reports is decided at pass level by c17_nopanic_flags_2.)

//@ harness: c17_nopanic_parent_open_5
//@ property: C17
//@ tier: quick
//@ unwind: 8
//@ functions: dc::find_subdevice_parent; Ports::topology; Topology::is_junction
//@ bounds: 4 earlier devices + the device looked at; link bits arbitrary
//@ assumes: every device reports at least one open port
//@ outside: more than 4 earlier devices
#[kani::proof]
#[kani::unwind(8)]
pub fn c17_nopanic_parent_open_5() {
    nopanic_parent::<5>(1);
}

//@ harness: c17_nopanic_step
//@ property: C17
//@ tier: quick
//@ unwind: 8
//@ timeout: 900
//@ functions: dc::configure_subdevice_offsets; dc::debug_print_ports; Ports::port_assigned_to; Ports::entry_port; Ports::topology; Ports::total_propagation_time; Ports::propagation_time_to; Ports::intermediate_propagation_time_to; Ports::is_last_port; SubDevice::is_child_of
//@ bounds: one step of the delay computation in an ARBITRARY state: parent P and device S with arbitrary link bits, arbitrary u32 port times, arbitrary links on the ports of P, arbitrary indices, arbitrary accumulator; parents slice = [P]
//@ assumes: P and S report at least one open port; some open port of P is linked to S (assign_parent_relationships links it immediately before the call or panics on the unwrap shown by c17_reject_overfull_5)
//@ outside: 0 open ports (c17_nopanic_flags_2, c17_nopanic_parent_5)
#[kani::proof]
#[kani::unwind(8)]
pub fn c17_nopanic_step() {
    let ip: u16 = kani::any();
    let is: u16 = kani::any();
    kani::assume(is != 0);
    let mut p = any_report(ip, 1, false);
    let l: [u16; 4] = kani::any();
    let mut linked = false;
    let mut j = 0;
    while j < 4 {
        p.ports.0[j].downstream_to = NonZeroU16::new(l[j]);
        linked |= p.ports.0[j].active && l[j] == is;
        j += 1;
    }
    kani::assume(linked);
    let mut s = any_report(is, 1, false);
    s.parent_index = Some(ip);
    let parents = [p];
    let mut accum: u32 = kani::any();
    let a0 = accum;
    configure_subdevice_offsets(&mut s, &parents, &mut accum);
    kani::cover!(accum > a0);
    kani::cover!(accum == u32::MAX && a0 < 10);
    assert!(accum >= a0, "propagation delay decreases in frame-processing order");
    assert!(s.propagation_delay == accum);
}

//@ harness: c17_ports_assign_any
//@ property: C17
//@ tier: quick
//@ unwind: 8
//@ functions: Ports::assign_next_downstream_port; Ports::entry_port; Ports::next_assignable_port; Port::index
//@ bounds: one Ports value with arbitrary link bits, arbitrary u32 times (any entry port), arbitrary existing links, arbitrary new index
//@ assumes: at least one open port
//@ outside: 0 open ports (entry_port unwrap, finding F15)
#[kani::proof]
#[kani::unwind(8)]
pub fn c17_ports_assign_any() {
    let a: [bool; 4] = kani::any();
    kani::assume(a[0] || a[1] || a[2] || a[3]);
    let t: [u32; 4] = kani::any();
    let l: [u16; 4] = kani::any();
    let mut p = Ports::new(a[0], a[1], a[2], a[3]);
    p.set_receive_times(t[0], t[1], t[2], t[3]);
    // entry (upstream) port: the open port with the lowest receive time, first one on ties
    let mut entry = 4usize;
    let mut j = 0;
    while j < 4 {
        if a[j] && (entry == 4 || t[j] < t[entry]) {
            entry = j;
        }
        j += 1;
    }
    let mut free = false;
    let mut j = 0;
    while j < 4 {
        p.0[j].downstream_to = NonZeroU16::new(l[j]);
        // a free DOWNSTREAM port: open, not linked, and not the port the frame comes in on
        free |= a[j] && l[j] == 0 && j != entry;
        j += 1;
    }
    let before = p;
    let idx: u16 = kani::any();
    kani::assume(idx != 0);
    let r = p.assign_next_downstream_port(NonZeroU16::new(idx).unwrap());
    kani::cover!(r.is_none());
    kani::cover!(r == Some(2));
    match r {
        None => assert!(!free && p == before, "None although an open downstream port is not linked"),
        Some(n) => {
            let j = match n {
                0 => 0,
                3 => 1,
                1 => 2,
                2 => 3,
                _ => {
                    assert!(false, "invalid port number");
                    0
                }
            };
            assert!(before.0[j].active && before.0[j].downstream_to.is_none());
            assert!(j != entry, "child linked to the upstream port");
            assert!(p.0[j].downstream_to == NonZeroU16::new(idx));
        }
    }
}

// ------------------------------------------------------------------------------------------------
// Tree shapes
// ------------------------------------------------------------------------------------------------

/// `kids[i][s]` = index of the device wired to slot s of device i (slot 0 = port 3, slot 1 = port 1,
/// slot 2 = port 2: EtherCAT processing order), 0 = port closed. Devices are numbered in
/// frame-processing (discovery) order, so children have larger indices than their parent and
/// device 0 is never a child.
pub struct Model<const N: usize> {
    pub devs: [SubDevice; N],
    /// True upstream neighbour.
    pub parent: [u16; N],
    /// True frame-path delay from the processing unit of device 0.
    pub path: [u32; N],
}

fn any_delays<const N: usize>() -> [u32; N] {
    core::array::from_fn(|_| {
        let d: u32 = kani::any();
        kani::assume(d >= 10 && d <= 2000);
        d
    })
}

fn model<const N: usize>(
    kids: &[[u8; 3]; N],
    d: &[u32; N],
    dc: &[DcSupport; N],
    allow_wrap: bool,
) -> Model<N> {
    // Loop time below each device, children first.
    let mut lp = [0u32; N];
    let mut i = N;
    while i > 0 {
        i -= 1;
        let mut s = 0;
        while s < 3 {
            let k = kids[i][s] as usize;
            if k != 0 {
                lp[i] += 2 * d[k] + lp[k];
            }
            s += 1;
        }
    }
    // True parent and true frame-path delay, parents first.
    let mut parent = [0u16; N];
    let mut path = [0u32; N];
    let mut i = 0;
    while i < N {
        let mut cum = 0u32;
        let mut s = 0;
        while s < 3 {
            let k = kids[i][s] as usize;
            if k != 0 {
                parent[k] = i as u16;
                path[k] = path[i] + cum + d[k];
                cum += 2 * d[k] + lp[k];
            }
            s += 1;
        }
        i += 1;
    }
    // Reports.
    let devs: [SubDevice; N] = core::array::from_fn(|i| {
        // Local clock value when the frame enters: arbitrary (arbitrary clock offset per device).
        let e: u32 = kani::any();
        if !allow_wrap {
            kani::assume(e.checked_add(lp[i]).is_some());
        }
        let stale: [u32; 3] = kani::any();
        let mut open = [false; 3];
        let mut t = [0u32; 3];
        let mut cum = 0u32;
        let mut s = 0;
        while s < 3 {
            let k = kids[i][s] as usize;
            if k != 0 {
                open[s] = true;
                cum += 2 * d[k] + lp[k];
                t[s] = e.wrapping_add(cum);
            } else {
                t[s] = stale[s];
            }
            s += 1;
        }
        let mut p = Ports::new(true, open[0], open[1], open[2]);
        // latch_dc_times reads the port times of DC-capable devices only
        if dc[i].any() {
            p.set_receive_times(e, t[0], t[1], t[2]);
        }
        let mut dev = mk(i as u16, p, dc[i]);
        dev.dc_receive_time = kani::any();
        dev
    });
    Model { devs, parent, path }
}

/// Run the real code on the modelled reports and compare with the true tree. `exact[i]`: device i
/// must carry exactly the true delay from the first DC device (all devices of a pure chain; on
/// other shapes the devices for which the frame-path delay is what the formulas yield).
fn check<const N: usize>(m: &mut Model<N>, exact: [bool; N]) {
    let r = assign_parent_relationships(&mut m.devs);
    kani::cover!(r.is_ok());
    if r.is_err() {
        assert!(false, "reports of a valid tree rejected");
        return;
    }
    assert!(m.devs[0].parent_index.is_none(), "first device has a parent");
    let mut i = 1;
    while i < N {
        assert!(
            m.devs[i].parent_index == Some(m.parent[i]),
            "parent_index is not the true upstream neighbour"
        );
        i += 1;
    }
    assert_monotone(&m.devs);
    let mut first: Option<usize> = None;
    let mut i = 0;
    while i < N {
        if m.devs[i].dc_support.any() {
            let pd = m.devs[i].propagation_delay;
            match first {
                None => {
                    first = Some(i);
                    assert!(pd == 0, "first DC device (reference) has a non-zero delay");
                }
                Some(f) => {
                    if exact[i] {
                        assert!(
                            pd == m.path[i] - m.path[f],
                            "propagation delay differs from the true delay from the first DC device"
                        );
                    }
                }
            }
        }
        i += 1;
    }
}

/// Chain 0 -> 1 -> ... -> N-1; links leave through port 1, 3, 2, 1, .. (concrete: symbolic link
/// bits multiply the cost of the iterator chains in ports.rs; c17_step_passthrough covers all three).
fn chain_kids<const N: usize>() -> [[u8; 3]; N] {
    let mut k = [[0u8; 3]; N];
    let mut i = 0;
    while i + 1 < N {
        k[i][[1, 0, 2][i % 3]] = (i + 1) as u8;
        i += 1;
    }
    k
}

fn all_dc<const N: usize>() -> [DcSupport; N] {
    core::array::from_fn(|_| any_dc_capable())
}

//@ harness: c17_tree_chain3
//@ property: C17
//@ tier: thorough
//@ unwind: 8
//@ timeout: 1800
//@ functions: dc::assign_parent_relationships; dc::find_subdevice_parent; dc::configure_subdevice_offsets; Ports::topology; Ports::entry_port; Ports::assign_next_downstream_port; Ports::port_assigned_to; Ports::total_propagation_time
//@ bounds: whole pass over a chain of 3 (links through port 1, then port 3); link delays symbolic 10..=2000 ns; local entry time of each device arbitrary u32 (arbitrary clock offsets); stale times on closed ports arbitrary; all devices DC capable (kind symbolic)
//@ assumes: all DC capable (c17_tree_chain3_ref, c17_tree_chain3_mixed for the rest); no device's port times straddle the u32 wrap (entry time + loop time below it <= u32::MAX), see c17_step_passthrough_wrap; zero forwarding delay, symmetric links (property)
//@ outside: forwarding/processing delays; longer chains (induction: c17_step_root + c17_step_passthrough)
#[kani::proof]
#[kani::unwind(8)]
pub fn c17_tree_chain3() {
    let mut m = model::<3>(&chain_kids(), &any_delays(), &all_dc(), false);
    kani::cover!(m.devs[1].ports.0[0].dc_receive_time > 0xffff_0000);
    check(&mut m, [true; 3]);
}

//@ harness: c17_tree_chain3_ref
//@ property: C17
//@ tier: thorough
//@ unwind: 8
//@ timeout: 1800
//@ functions: dc::assign_parent_relationships; dc::find_subdevice_parent; dc::configure_subdevice_offsets; Ports::total_propagation_time
//@ bounds: as c17_tree_chain3 with device 0 NOT DC capable (its port times stay zero): device 1 is the reference
//@ assumes: devices 1, 2 DC capable; no port-time wrap inside one device
//@ outside: -
#[kani::proof]
#[kani::unwind(8)]
pub fn c17_tree_chain3_ref() {
    let dc = [DcSupport::None, any_dc_capable(), any_dc_capable()];
    let mut m = model::<3>(&chain_kids(), &any_delays(), &dc, false);
    kani::cover!(m.devs[2].ports.0[0].dc_receive_time > 0xffff_0000);
    check(&mut m, [true; 3]);
}

//@ harness: c17_tree_chain3_mixed
//@ property: C17
//@ tier: quick
//@ unwind: 8
//@ timeout: 900
//@ functions: dc::assign_parent_relationships; dc::configure_subdevice_offsets; Ports::total_propagation_time
//@ bounds: as c17_tree_chain3 with device 1 NOT DC capable and the DC flags of devices 0 and 2 symbolic (mixed DC / non-DC chain)
//@ assumes: no port-time wrap inside one device
//@ outside: -
//@ expect_fail: DC, non-DC, DC chain: device 2 is programmed with delay 0 instead of d1+d2 (the non-DC parent has no port times, parent_delta saturates to 0)
#[kani::proof]
#[kani::unwind(8)]
pub fn c17_tree_chain3_mixed() {
    let dc = [any_dc(), DcSupport::None, any_dc()];
    let mut m = model::<3>(&chain_kids(), &any_delays(), &dc, false);
    kani::cover!(dc[0].any() && dc[2].any());
    check(&mut m, [true; 3]);
}

// Trees of 4 and more devices with symbolic port times exceed 14 GB in one run (measured: fork of
// 4, cross of 4, nested forks of 5), so beyond chains the whole pass is only run on CONCRETE
// non-DC line-ups (port times all zero, as SubDevice::new leaves them): these are witnesses for the
// findings and a smoke check of the loop; the quantified claims are c17_parent_*, c17_ports_assign*
// and c17_step_*.
fn no_dc<const N: usize>() -> [DcSupport; N] {
    [DcSupport::None; N]
}

//@ harness: c17_tree_nested_last
//@ property: C17
//@ tier: quick
//@ unwind: 8
//@ functions: dc::assign_parent_relationships; dc::find_subdevice_parent; Ports::assign_next_downstream_port
//@ bounds: one concrete line-up, nested branch with the inner fork on the LAST port of the outer fork: 0 fork {1 leaf, 2}, 2 fork {3 leaf, 4 leaf}; ports 3 and 1 on both; non-DC devices
//@ assumes: -
//@ outside: everything symbolic (c17_parent_flat_6, c17_ports_assign, c17_step_fork)
#[kani::proof]
#[kani::unwind(8)]
pub fn c17_tree_nested_last() {
    let kids = [[1, 2, 0], [0; 3], [3, 4, 0], [0; 3], [0; 3]];
    let mut m = model::<5>(&kids, &[100; 5], &no_dc(), false);
    check(&mut m, [false; 5]);
    kani::cover!(m.devs[2].ports.0[2].downstream_to == NonZeroU16::new(4));
}

//@ harness: c17_tree_nested_first
//@ property: C17
//@ tier: quick
//@ unwind: 8
//@ functions: dc::assign_parent_relationships; dc::find_subdevice_parent; Ports::assign_next_downstream_port
//@ bounds: one concrete line-up, nested branch with the inner fork on the FIRST port of the outer fork: 0 fork {1, 4 leaf}, 1 fork {2 leaf, 3 leaf}; ports 3 and 1 used on both; non-DC devices
//@ assumes: -
//@ outside: -
//@ expect_fail: device 4 (true parent 0) gets parent_index 1: find_subdevice_parent takes the nearest junction behind a line end even when all its downstream ports are taken and the device is then linked to port 0 (the upstream port) of device 1; Ok(()) is returned (see c17_parent_any_5, c17_ports_assign for the quantified versions)
#[kani::proof]
#[kani::unwind(8)]
pub fn c17_tree_nested_first() {
    let kids = [[1, 4, 0], [2, 3, 0], [0; 3], [0; 3], [0; 3]];
    let mut m = model::<5>(&kids, &[100; 5], &no_dc(), false);
    check(&mut m, [false; 5]);
}

//@ harness: c17_tree_nested_cross
//@ property: C17
//@ tier: quick
//@ unwind: 8
//@ functions: dc::assign_parent_relationships; dc::find_subdevice_parent; Ports::assign_next_downstream_port
//@ bounds: one concrete line-up: 0 cross {1, 4 leaf, 5 leaf}, 1 fork {2 leaf, 3 leaf}; non-DC devices
//@ assumes: -
//@ outside: -
//@ expect_fail: valid tree panics: devices 4 and 5 are both attributed to the full inner fork 1, 4 takes its port 0 and for 5 assign_next_downstream_port returns None -> unwrap "no free ports on parent"
#[kani::proof]
#[kani::unwind(8)]
pub fn c17_tree_nested_cross() {
    let kids = [[1, 4, 5], [2, 3, 0], [0; 3], [0; 3], [0; 3], [0; 3]];
    let mut m = model::<6>(&kids, &[100; 6], &no_dc(), false);
    check(&mut m, [false; 6]);
}

/// Device 0 with ports 0, 3, 1 open followed by N-1 line ends, all non-DC.
fn overfull<const N: usize>() -> Result<(), Error> {
    let mut devs: [SubDevice; N] = core::array::from_fn(|i| {
        mk(i as u16, Ports::new(true, i == 0, i == 0, false), DcSupport::None)
    });
    assign_parent_relationships(&mut devs)
}

//@ harness: c17_reject_overfull_4
//@ property: C17
//@ tier: quick
//@ unwind: 8
//@ functions: dc::assign_parent_relationships; dc::find_subdevice_parent; Ports::assign_next_downstream_port
//@ bounds: one concrete set of reports that cannot come from a tree: device 0 with two downstream ports followed by THREE line ends; non-DC devices
//@ assumes: -
//@ outside: -
//@ expect_fail: Ok(()) is returned (third line end linked to port 0 of the fork) instead of Err(Topology)
#[kani::proof]
#[kani::unwind(8)]
pub fn c17_reject_overfull_4() {
    let r = overfull::<4>();
    kani::cover!(r.is_err());
    assert!(r.is_err(), "reports with more children than downstream ports accepted");
}

//@ harness: c17_reject_overfull_5
//@ property: C17
//@ tier: quick
//@ unwind: 8
//@ functions: dc::assign_parent_relationships; dc::find_subdevice_parent; Ports::assign_next_downstream_port
//@ bounds: one concrete set of reports that cannot come from a tree: device 0 with two downstream ports followed by FOUR line ends; non-DC devices
//@ assumes: -
//@ outside: -
//@ expect_fail: dc.rs unwrap "no free ports on parent" panics instead of returning Err(Topology) (finding F15)
#[kani::proof]
#[kani::unwind(8)]
pub fn c17_reject_overfull_5() {
    let r = overfull::<5>();
    kani::cover!(true);
    assert!(r.is_err(), "reports with more children than downstream ports accepted");
}

// ------------------------------------------------------------------------------------------------
// Lemma / step harnesses: one function, arbitrary surrounding state. They cover networks of ANY
// size (the 1..24 devices of the property) by induction over frame-processing order; the
// c17_tree_* harnesses above check the glue (loop of assign_parent_relationships) on small trees.
// ------------------------------------------------------------------------------------------------

fn any_delay() -> u32 {
    let d: u32 = kani::any();
    kani::assume(d >= 10 && d <= 2000);
    d
}

/// Half of a subtree loop time (loop times are sums of 2*d): bounded so harness arithmetic cannot
/// overflow; 2^24 ns = 16 ms is far above 24 devices * 2000 ns.
fn any_half_loop() -> u32 {
    let h: u32 = kani::any();
    kani::assume(h <= 0x00ff_ffff);
    h
}

/// Report of a DC device with an ARBITRARY subtree below it: port 0 open and earliest (local time
/// e), any subset of ports 3/1/2 open, the frame returning through them in processing order, the
/// last one at e + lp. Returns the device and lp (0 iff no downstream port is open).
fn any_subtree_report_w(index: u16, allow_wrap: bool) -> (SubDevice, u32) {
    let a: [bool; 3] = kani::any();
    let e: u32 = kani::any();
    let o: [u32; 3] = kani::any();
    let stale: [u32; 3] = kani::any();
    let lp: u32 = kani::any();
    kani::assume(lp <= 0x01ff_ffff);
    if !allow_wrap {
        kani::assume(e.checked_add(lp).is_some());
    }
    let mut mx = 0u32;
    let mut t = stale;
    let mut s = 0;
    while s < 3 {
        if a[s] {
            // a child loop takes at least 2 * 10 ns
            kani::assume(o[s] >= 20 && o[s] >= mx && o[s] <= lp);
            mx = o[s];
            t[s] = e.wrapping_add(o[s]);
        }
        s += 1;
    }
    kani::assume(mx == lp);
    let mut p = Ports::new(true, a[0], a[1], a[2]);
    p.set_receive_times(e, t[0], t[1], t[2]);
    let mut d = mk(index, p, any_dc_capable());
    d.dc_receive_time = kani::any();
    (d, lp)
}

fn any_subtree_report(index: u16) -> (SubDevice, u32) {
    any_subtree_report_w(index, false)
}

/// Mark slot `s` (0 = port 3, 1 = port 1, 2 = port 2) of `p` as leading to device `idx`, as
/// assign_next_downstream_port does (c17_ports_assign checks that it picks exactly this slot).
fn link(p: &mut Ports, s: usize, idx: u16) {
    p.0[s + 1].downstream_to = NonZeroU16::new(idx);
}

//@ harness: c17_step_root
//@ property: C17
//@ tier: quick
//@ unwind: 6
//@ functions: dc::configure_subdevice_offsets
//@ bounds: induction base: a device without parent (first in the network), arbitrary tree-consistent report, arbitrary accumulator, parents slice empty
//@ assumes: none beyond the report being tree-consistent (any_subtree_report)
//@ outside: -
#[kani::proof]
#[kani::unwind(6)]
pub fn c17_step_root() {
    let (mut s, lp) = any_subtree_report(0);
    let mut accum: u32 = kani::any();
    let a0 = accum;
    kani::cover!(lp > 0);
    configure_subdevice_offsets(&mut s, &[], &mut accum);
    assert!(accum == a0 && s.propagation_delay == 0, "root device delay is not 0");
}

//@ harness: c17_step_passthrough
//@ property: C17
//@ tier: quick
//@ unwind: 6
//@ functions: dc::configure_subdevice_offsets; Ports::port_assigned_to; Ports::entry_port; Ports::total_propagation_time; Ports::topology; SubDevice::is_child_of
//@ bounds: induction step on a chain link: parent P with port 0 + one symbolic downstream port, device S behind it over a link of 10..=2000 ns with an ARBITRARY subtree below S (loop time up to 2^25 ns), arbitrary local clocks, arbitrary device indices, arbitrary accumulated delay a0 <= 2^31; parents slice = [P] (configure_subdevice_offsets reads no other element: it selects by index)
//@ assumes: P and S DC capable; port times of one device do not straddle the u32 wrap; P's downstream port is linked to S (what assign_parent_relationships did just before); zero forwarding delay
//@ outside: non-DC parent (c17_tree_chain3_mixed); wrap (c17_step_passthrough_wrap)
#[kani::proof]
#[kani::unwind(6)]
pub fn c17_step_passthrough() {
    step_passthrough(false);
}

//@ harness: c17_step_passthrough_wrap
//@ property: C17
//@ tier: quick
//@ unwind: 6
//@ functions: dc::configure_subdevice_offsets; Ports::total_propagation_time; Ports::entry_port
//@ bounds: as c17_step_passthrough, but the u32 port times of P and of S may wrap between port 0 and a returning port ("timestamps near the 32-bit wrap")
//@ assumes: as c17_step_passthrough without the no-wrap assumption
//@ outside: -
//@ expect_fail: e.g. S latches port 0 at 0xFFFFFFF0 and its return port at 0x00000054: total_propagation_time = max - min is ~2^32 instead of 100, parent_delta saturates to 0 and S (and everything behind it) is programmed without the link delay
#[kani::proof]
#[kani::unwind(6)]
pub fn c17_step_passthrough_wrap() {
    step_passthrough(true);
}

fn step_passthrough(allow_wrap: bool) {
    let ip: u16 = kani::any();
    let is: u16 = kani::any();
    kani::assume(is != 0 && is != ip);
    let (mut s, lps) = any_subtree_report_w(is, allow_wrap);
    s.parent_index = Some(ip);
    let d = any_delay();
    let sp: usize = kani::any();
    kani::assume(sp < 3);
    let ep: u32 = kani::any();
    let lpp = 2 * d + lps;
    if !allow_wrap {
        kani::assume(ep.checked_add(lpp).is_some());
    }
    let mut act = [false; 3];
    let mut t: [u32; 3] = kani::any();
    act[sp] = true;
    t[sp] = ep.wrapping_add(lpp);
    let mut pp = Ports::new(true, act[0], act[1], act[2]);
    pp.set_receive_times(ep, t[0], t[1], t[2]);
    link(&mut pp, sp, is);
    let mut p = mk(ip, pp, any_dc_capable());
    p.propagation_delay = kani::any();
    let parents = [p];
    let mut accum: u32 = kani::any();
    kani::assume(accum <= 0x7fff_ffff);
    let a0 = accum;
    kani::cover!(lps > 0 && sp == 0);
    kani::cover!(lps == 0 && sp == 2);
    configure_subdevice_offsets(&mut s, &parents, &mut accum);
    assert!(
        accum == a0 + d && s.propagation_delay == a0 + d,
        "chain link: delay is not the previous delay plus the true link delay"
    );
}

//@ harness: c17_step_fork
//@ property: C17
//@ tier: quick
//@ unwind: 6
//@ functions: dc::configure_subdevice_offsets; SubDevice::is_child_of; Ports::is_last_port; Ports::propagation_time_to; Ports::port_assigned_to; Ports::total_propagation_time
//@ bounds: induction step below a fork P (port 0 + two of ports 3/1/2, which two is symbolic): S is either the device on the first branch port (B) or on the last one (C); arbitrary subtrees below B, C; links 10..=2000 ns; arbitrary clocks/indices
//@ assumes: P, S DC capable; no port-time wrap inside one device; ports of P linked as assign_parent_relationships does (B always, C once discovered); for S = C the accumulator equals DP + dB + lpB/2, the delay of the last device of a branch B that is a chain (DP = delay of P); zero forwarding delay
//@ outside: branch B containing junctions (then the accumulator is whatever the last device of B got; the property claims exactness on chains only)
#[kani::proof]
#[kani::unwind(6)]
pub fn c17_step_fork() {
    let ip: u16 = kani::any();
    let ib: u16 = kani::any();
    let ic: u16 = kani::any();
    kani::assume(ib != 0 && ic != 0 && ib != ip && ic != ip && ib != ic);
    let closed: u8 = kani::any();
    kani::assume(closed < 3);
    let (f, l) = match closed {
        0 => (1usize, 2usize),
        1 => (0, 2),
        _ => (0, 1),
    };
    let last: bool = kani::any();
    let (mut s, lps) = any_subtree_report(if last { ic } else { ib });
    s.parent_index = Some(ip);
    let db = any_delay();
    let dc = any_delay();
    let hb = any_half_loop();
    let hc = any_half_loop();
    let lpb = if last { 2 * hb } else { lps };
    let lpc = if last { lps } else { 2 * hc };
    let ep: u32 = kani::any();
    let lb = 2 * db + lpb;
    let lc = 2 * dc + lpc;
    kani::assume(ep.checked_add(lb + lc).is_some());
    let mut act = [true; 3];
    act[closed as usize] = false;
    let mut t: [u32; 3] = kani::any();
    t[f] = ep + lb;
    t[l] = ep + lb + lc;
    let mut pp = Ports::new(true, act[0], act[1], act[2]);
    pp.set_receive_times(ep, t[0], t[1], t[2]);
    link(&mut pp, f, ib);
    if last {
        link(&mut pp, l, ic);
    }
    let parents = [mk(ip, pp, any_dc_capable())];
    let dp: u32 = kani::any();
    kani::assume(dp <= 0x3fff_ffff);
    let a0 = if last { dp + db + hb } else { dp };
    let mut accum = a0;
    kani::cover!(last && closed == 0);
    kani::cover!(!last && closed == 2 && lps > 0);
    configure_subdevice_offsets(&mut s, &parents, &mut accum);
    let expect = if last { dp + lb + dc } else { dp + db };
    assert!(
        accum == expect && s.propagation_delay == expect,
        "fork: delay is not the frame-path delay from the reference"
    );
}

//@ harness: c17_step_cross
//@ property: C17
//@ tier: quick
//@ unwind: 6
//@ functions: dc::configure_subdevice_offsets; SubDevice::is_child_of; Ports::is_last_port; Ports::intermediate_propagation_time_to; Ports::port_assigned_to; Ports::total_propagation_time
//@ bounds: induction step below a cross P (all four ports open): S is the device on port 3, 1 or 2 (symbolic); arbitrary subtrees below the three branches; links 10..=2000 ns; arbitrary clocks/indices
//@ assumes: P, S DC capable; no port-time wrap inside one device; ports of P linked up to and including S; for S on port 1 the accumulator equals DP + d3 + lp3/2 (branch on port 3 is a chain); zero forwarding delay
//@ outside: exact value for S on port 2, the LAST port of the cross: dc.rs programs max(accumulator, loop time of P), which is not the frame-path delay DP + L3 + L1 + d2 (cover); only "never decreases" is asserted there, as the property claims exactness on chains only
#[kani::proof]
#[kani::unwind(6)]
pub fn c17_step_cross() {
    let ip: u16 = kani::any();
    let ix: [u16; 3] = kani::any();
    kani::assume(ix[0] != 0 && ix[1] != 0 && ix[2] != 0);
    kani::assume(ix[0] != ip && ix[1] != ip && ix[2] != ip);
    kani::assume(ix[0] != ix[1] && ix[0] != ix[2] && ix[1] != ix[2]);
    let w: usize = kani::any();
    kani::assume(w < 3);
    let (mut s, lps) = any_subtree_report(ix[w]);
    s.parent_index = Some(ip);
    let d = [any_delay(), any_delay(), any_delay()];
    let h = [any_half_loop(), any_half_loop(), any_half_loop()];
    let mut lp = [2 * h[0], 2 * h[1], 2 * h[2]];
    lp[w] = lps;
    let l = [2 * d[0] + lp[0], 2 * d[1] + lp[1], 2 * d[2] + lp[2]];
    let ep: u32 = kani::any();
    kani::assume(ep.checked_add(l[0] + l[1] + l[2]).is_some());
    let mut pp = Ports::new(true, true, true, true);
    pp.set_receive_times(ep, ep + l[0], ep + l[0] + l[1], ep + l[0] + l[1] + l[2]);
    link(&mut pp, 0, ix[0]);
    if w >= 1 {
        link(&mut pp, 1, ix[1]);
    }
    if w >= 2 {
        link(&mut pp, 2, ix[2]);
    }
    let parents = [mk(ip, pp, any_dc_capable())];
    let dp: u32 = kani::any();
    kani::assume(dp <= 0x3fff_ffff);
    let any_acc: u32 = kani::any();
    kani::assume(any_acc <= 0x7fff_ffff);
    let a0 = match w {
        0 => dp,
        1 => dp + d[0] + h[0],
        _ => any_acc,
    };
    let mut accum = a0;
    configure_subdevice_offsets(&mut s, &parents, &mut accum);
    kani::cover!(w == 0 && lps > 0);
    kani::cover!(w == 1);
    kani::cover!(w == 2 && a0 == dp + l[0] + d[1] + h[1] && accum != dp + l[0] + l[1] + d[2]);
    assert!(accum == s.propagation_delay, "accumulator and programmed delay differ");
    assert!(accum >= a0, "propagation delay decreases in frame-processing order");
    if w == 0 {
        assert!(accum == dp + d[0], "cross, port 3: delay is not DP + d3");
    }
    if w == 1 {
        assert!(
            accum == dp + l[0] + d[1],
            "cross, port 1: delay is not the frame-path delay DP + L3 + d1"
        );
    }
}

//@ harness: c17_ports_assign
//@ property: C17
//@ tier: quick
//@ unwind: 8
//@ functions: Ports::assign_next_downstream_port; Ports::entry_port; Ports::next_assignable_port; Port::index
//@ bounds: one Ports value: port 0 open, any subset of ports 3/1/2 open, any subset of the open downstream ports already linked, arbitrary u32 times with port 0 strictly earliest among the open ports (tree-consistent report without wrap), arbitrary new device index
//@ assumes: port 0 open and earliest (frame enters through port 0)
//@ outside: entry through another port
//@ expect_fail: when every open downstream port is already linked the new device is linked to port 0 (the upstream port) and Some(0) is returned instead of None: a junction accepts one child more than it has downstream ports (Fork + 3 line ends is accepted, see c17_reject_overfull_4)
#[kani::proof]
#[kani::unwind(8)]
pub fn c17_ports_assign() {
    let a: [bool; 3] = kani::any();
    let taken: [bool; 3] = kani::any();
    let t: [u32; 4] = kani::any();
    let mut p = Ports::new(true, a[0], a[1], a[2]);
    p.set_receive_times(t[0], t[1], t[2], t[3]);
    let mut first_free: Option<usize> = None;
    let mut s = 3;
    while s > 0 {
        s -= 1;
        if a[s] {
            kani::assume(t[s + 1] > t[0]);
            if taken[s] {
                link(&mut p, s, 100 + s as u16);
            } else {
                first_free = Some(s);
            }
        }
    }
    let before = p;
    let idx: u16 = kani::any();
    kani::assume(idx != 0);
    let r = p.assign_next_downstream_port(NonZeroU16::new(idx).unwrap());
    kani::cover!(first_free == Some(2));
    kani::cover!(first_free.is_none() && (a[0] || a[1] || a[2]));
    match first_free {
        Some(s) => {
            assert!(r == Some([3u8, 1, 2][s]), "not the next free port in order 3, 1, 2");
            assert!(p.0[s + 1].downstream_to == NonZeroU16::new(idx));
            let mut j = 0;
            while j < 4 {
                if j != s + 1 {
                    assert!(p.0[j] == before.0[j], "another port was modified");
                }
                j += 1;
            }
        }
        None => {
            assert!(
                r.is_none() && p == before,
                "no free downstream port, but the device was linked (to upstream port 0)"
            );
        }
    }
}

//@ harness: c17_ports_times
//@ property: C17
//@ tier: quick
//@ unwind: 8
//@ functions: Ports::topology; Ports::entry_port; Ports::last_port; Ports::is_last_port; Ports::total_propagation_time; Ports::propagation_time_to; Ports::intermediate_propagation_time_to; Port::index
//@ bounds: one Ports value with arbitrary link bits and arbitrary u32 port times; a symbolic target port q
//@ assumes: at least one open port; intermediate_propagation_time_to only for q = port 3 or port 1 (dc.rs never passes the last port of a cross, see c17_nopanic_step; for port 2 the plain `sum` of three saturating deltas can overflow: not reachable from reports)
//@ outside: 0 open ports (topology / entry_port panic, finding F15)
#[kani::proof]
#[kani::unwind(8)]
pub fn c17_ports_times() {
    let a: [bool; 4] = kani::any();
    let n = a[0] as u8 + a[1] as u8 + a[2] as u8 + a[3] as u8;
    kani::assume(n >= 1);
    let t: [u32; 4] = kani::any();
    let mut p = Ports::new(a[0], a[1], a[2], a[3]);
    p.set_receive_times(t[0], t[1], t[2], t[3]);
    // reference values
    let mut mn = u32::MAX;
    let mut mx = 0u32;
    let mut first_min = 4usize;
    let mut last = 4usize;
    let mut j = 0;
    while j < 4 {
        if a[j] {
            if first_min == 4 || t[j] < mn {
                mn = t[j];
                first_min = j;
            }
            if t[j] > mx {
                mx = t[j];
            }
            last = j;
        }
        j += 1;
    }
    use crate::subdevice::ports::Topology;
    let topo = p.topology();
    kani::cover!(topo == Topology::Cross);
    assert!(match n {
        1 => topo == Topology::LineEnd,
        2 => topo == Topology::Passthrough,
        3 => topo == Topology::Fork,
        _ => topo == Topology::Cross,
    });
    assert!(p.entry_port() == p.0[first_min], "entry port is not the first earliest open port");
    assert!(p.last_port() == Some(&p.0[last]));
    let total = p.total_propagation_time();
    assert!(total == if mx > mn { Some(mx - mn) } else { None });
    let q: usize = kani::any();
    kani::assume(q < 4);
    assert!(p.is_last_port(&p.0[q]) == (q == last));
    if first_min == 0 {
        // time from entry (port 0) to port q = spread of the open ports up to and including q
        let mut mn2 = u32::MAX;
        let mut mx2 = 0u32;
        let mut j = 0;
        while j <= q {
            if a[j] {
                if t[j] < mn2 {
                    mn2 = t[j];
                }
                if t[j] > mx2 {
                    mx2 = t[j];
                }
            }
            j += 1;
        }
        let r = p.propagation_time_to(&p.0[q]);
        kani::cover!(r.is_some() && q == 2);
        assert!(r == if mx2 > mn2 { Some(mx2 - mn2) } else { None });
    }
    if q == 1 || q == 2 {
        let mut sum = 0u64;
        let mut j = 0;
        while j < q {
            if a[j] && a[j + 1] {
                sum += t[j + 1].saturating_sub(t[j]) as u64;
            }
            j += 1;
        }
        let r = p.intermediate_propagation_time_to(&p.0[q]);
        assert!(r as u64 == sum);
    }
}

/// Arbitrary tree shape as link bits: device i has port 0 open plus a[i][..]; the sequence is a
/// valid frame-processing (preorder) listing of a tree. Runs the real parent search for every
/// device and returns (all answers equal the true upstream neighbour, some device follows a line
/// end whose nearest junction is already full, shape of dc.rs test two_ek1100).
fn parent_search<const N: usize>() -> (bool, bool, bool) {
    let a: [[bool; 3]; N] = kani::any();
    let mut c = [0u8; N];
    let mut pending: i32 = 1;
    let mut i = 0;
    while i < N {
        c[i] = a[i][0] as u8 + a[i][1] as u8 + a[i][2] as u8;
        kani::assume(pending >= 1);
        pending += c[i] as i32 - 1;
        i += 1;
    }
    kani::assume(pending == 0);
    let devs: [SubDevice; N] = core::array::from_fn(|i| {
        mk(i as u16, Ports::new(true, a[i][0], a[i][1], a[i][2]), DcSupport::None)
    });
    let mut rem = c;
    let mut nested = false;
    let mut ok = true;
    let mut i = 1;
    while i < N {
        // true upstream neighbour: the most recent device that still has a free downstream port
        let mut tp = N;
        let mut j = i;
        while j > 0 {
            j -= 1;
            if tp == N && rem[j] > 0 {
                tp = j;
            }
        }
        assert!(tp < N);
        if c[i - 1] == 0 {
            // previous device is a line end: the nearest junction behind it
            let mut jn = N;
            let mut j = i - 1;
            while j > 0 {
                j -= 1;
                if jn == N && c[j] >= 2 {
                    jn = j;
                }
            }
            if jn < N && rem[jn] == 0 {
                nested = true;
            }
        }
        let r = find_subdevice_parent(&devs[..i], &devs[i]);
        ok &= r == Ok(Some(tp as u16));
        rem[tp] -= 1;
        i += 1;
    }
    (ok, nested, c[0] == 2 && c[N - 3] == 2)
}

//@ harness: c17_parent_flat_6
//@ property: C17
//@ tier: quick
//@ unwind: 8
//@ functions: dc::find_subdevice_parent; Ports::topology; Topology::is_junction
//@ bounds: ALL trees of 6 devices wired through port 0 (link bits symbolic, constrained to a valid preorder degree sequence); oracle = most recent device with a free downstream port
//@ assumes: whenever a device follows a line end, the nearest junction behind that line end still has a free downstream port (no finished junction nested in an unfinished one), see c17_parent_any_5
//@ outside: more than 6 devices; the nested case
#[kani::proof]
#[kani::unwind(8)]
pub fn c17_parent_flat_6() {
    let (ok, nested, two_forks) = parent_search::<6>();
    kani::assume(!nested);
    kani::cover!(two_forks);
    assert!(ok, "find_subdevice_parent does not return the true upstream neighbour");
}

//@ harness: c17_parent_any_5
//@ property: C17
//@ tier: quick
//@ unwind: 8
//@ functions: dc::find_subdevice_parent; Ports::topology; Topology::is_junction
//@ bounds: ALL trees of 5 devices wired through port 0 (link bits symbolic, valid preorder degree sequence)
//@ assumes: none beyond tree shape
//@ outside: -
//@ expect_fail: fork 0 {fork 1 {2, 3}, 4}: for device 4 the nearest junction behind line end 3 is device 1 (full), returned instead of device 0
#[kani::proof]
#[kani::unwind(8)]
pub fn c17_parent_any_5() {
    let (ok, nested, two_forks) = parent_search::<5>();
    kani::cover!(nested);
    kani::cover!(two_forks && !nested);
    assert!(ok, "find_subdevice_parent does not return the true upstream neighbour");
}

// C05: the receive path survives any bytes and rejects strangers without side effects.
use crate::{
    PduStorage, ReceiveAction,
    pdu_loop::{VERIF_FIRST_PDU_EMPTY as FIRST_PDU_EMPTY, VerifFrameState as FrameState},
    verif::support::*,
};

const FRAME: usize = 40; // slot frame size: 14 eth + 2 ecat hdr + 24 bytes datagram area
const IN_MAX: usize = 48; // received frames up to 48 bytes: longer than a slot, so oversize is included

fn any_slot(idx: u8) -> Slot {
    let first_pdu: u16 = kani::any();
    // representation invariant of the field: an 8-bit index or the empty sentinel
    kani::assume(first_pdu <= 0xff || first_pdu == FIRST_PDU_EMPTY);
    let payload_len: usize = kani::any();
    kani::assume(payload_len <= FRAME - 16);
    Slot { state: any_state(), first_pdu, payload_len, slot_index: idx }
}

fn receive_any<const N: usize>(storage: &'static PduStorage<N, FRAME>) {
    let (_tx, mut rx, pdu_loop) = storage.try_split().unwrap();
    let mut pre = [any_slot(0); N];
    let mut i = 0;
    while i < N {
        pre[i] = any_slot(i as u8);
        forge(&pdu_loop, i, pre[i]);
        i += 1;
    }
    // arbitrary buffer contents of every slot: probe two symbolic positions per slot afterwards
    let probe: usize = kani::any();
    kani::assume(probe < FRAME);
    let mut pre_probe = [0u8; N];
    let mut i = 0;
    while i < N {
        let v: u8 = kani::any();
        set_slot_byte(&pdu_loop, i, probe, v);
        pre_probe[i] = v;
        i += 1;
    }

    let input: [u8; IN_MAX] = kani::any();
    let len: usize = kani::any();
    kani::assume(len <= IN_MAX);
    let res = rx.receive_frame(&input[..len]);

    let ethertype_ok = len >= 14 && input[12] == 0x88 && input[13] == 0xa4;
    let own_mac = len >= 14
        && input[6] == 0x10 && input[7] == 0x10 && input[8] == 0x10
        && input[9] == 0x10 && input[10] == 0x10 && input[11] == 0x10;
    kani::cover!(res == Ok(ReceiveAction::Processed));
    kani::cover!(res == Ok(ReceiveAction::Ignored));
    kani::cover!(res.is_err());

    // which slot (if any) was awaiting this index?
    let idx_byte = if len >= 18 { input[17] } else { 0 };
    let mut first_match: Option<usize> = None;
    let mut i = N;
    while i > 0 {
        i -= 1;
        if len >= 18 && pre[i].first_pdu == u16::from(idx_byte) {
            first_match = Some(i);
        }
    }

    let mut changed = 0usize;
    let mut i = 0;
    while i < N {
        let post = slot(&pdu_loop, i);
        let same_hdr = post == pre[i];
        let same_probe = slot_byte(&pdu_loop, i, probe) == pre_probe[i];
        if !(same_hdr && same_probe) {
            changed += 1;
            // only the slot the frame belongs to may be touched, and only if it was awaiting a response
            assert!(first_match == Some(i));
            assert!(pre[i].state == FrameState::Sent);
            assert!(ethertype_ok && !own_mac);
            // header fields other than the state are never touched by RX
            assert!(post.first_pdu == pre[i].first_pdu && post.payload_len == pre[i].payload_len);
            assert!(post.state == FrameState::RxDone || post.state == FrameState::RxBusy);
            // RX writes only the datagram area (after the 16 header bytes)
            assert!(same_probe || probe >= 16);
        }
        i += 1;
    }
    assert!(changed <= 1);

    match res {
        Ok(ReceiveAction::Processed) => {
            // accepted => EtherCAT, not our own echo, and exactly the awaiting slot went to RxDone
            assert!(ethertype_ok && !own_mac);
            let m = first_match.unwrap();
            assert!(pre[m].state == FrameState::Sent);
            assert!(slot(&pdu_loop, m).state == FrameState::RxDone);
            // declared payload copied byte-exact (probe one symbolic position of the datagram area)
            let plen = usize::from(u16::from_le_bytes([input[14], input[15]]) & 0x07ff);
            // the index byte must lie INSIDE the declared EtherCAT payload (length field >= 2): bytes
            // after the declared payload (Ethernet padding) never identify a request
            assert!(plen >= 2 && 16 + plen <= len && plen <= FRAME - 16);
            if probe >= 16 && probe < 16 + plen {
                assert!(slot_byte(&pdu_loop, m, probe) == input[probe]);
            }
        }
        Ok(ReceiveAction::Ignored) => {
            assert!(changed == 0);
        }
        Err(_) => {
            // rejected: nothing accepted. The only state change allowed is the documented one: a
            // frame matching an awaiting slot that is longer than the slot buffer (claimed, then refused).
            if changed == 1 {
                let m = first_match.unwrap();
                assert!(slot(&pdu_loop, m).state == FrameState::RxBusy);
            }
        }
    }
    if !ethertype_ok || own_mac {
        assert!(changed == 0);
        assert!(res == Ok(ReceiveAction::Ignored) || len < 14);
    }
}

//@ harness: c05_receive_any_1
//@ property: C05
//@ tier: quick
//@ unwind: 50
//@ timeout: 900
//@ functions: PduRx::receive_frame; EthernetFrame::new_checked; EthernetFrame::ethertype; EthernetFrame::src_addr; EthernetFrame::payload; EthercatFrameHeader::unpack_from_slice; PduStorageRef::frame_index_by_first_pdu_index; PduStorageRef::claim_receiving; ReceivingFrame::claim_receiving; ReceivingFrame::buf_mut; ReceivingFrame::mark_received; FrameBox::wake
//@ bounds: 1 slot of 40 bytes in EVERY state (8 states, any first_pdu in 0..=255 or empty, any payload_len, one symbolic buffer position probed); received frame = 48 fully symbolic bytes with symbolic length 0..=48 (every truncation point, every header field, lengths that lie, oversize)
//@ outside: frames longer than 48 bytes (slicing is checked and length-uniform); 3-4 slots
#[kani::proof]
#[kani::unwind(50)]
pub fn c05_receive_any_1() {
    static STORAGE: PduStorage<1, FRAME> = PduStorage::new();
    receive_any::<1>(&STORAGE);
}

//@ harness: c05_receive_any_2
//@ property: C05, C02, C20
//@ tier: quick
//@ unwind: 50
//@ timeout: 1200
//@ functions: PduRx::receive_frame; PduStorageRef::frame_index_by_first_pdu_index; PduStorageRef::claim_receiving; ReceivingFrame::mark_received
//@ bounds: as c05_receive_any_1 with 2 slots in every combination of states (incl. both slots carrying the same index)
//@ outside: 3-4 slots (the lookup is a linear search uniform in the slot index)
#[kani::proof]
#[kani::unwind(50)]
pub fn c05_receive_any_2() {
    static STORAGE: PduStorage<2, FRAME> = PduStorage::new();
    receive_any::<2>(&STORAGE);
}

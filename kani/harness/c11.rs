// C11: a device that did not answer is never mistaken for one that did.
//
// Every data-returning entry point is run against the scripted device behind H1 with a SYMBOLIC
// received working counter and symbolic data; the expected count is the default (1) or a symbolic
// caller-supplied value. The gate itself (ReceivedPdu::wkc on the real transport's view) is decided
// in c01_first_pdu_view.
use crate::{
    Command, MainDevice, MainDeviceConfig, PduStorage, Timeouts,
    al_control::AlControl,
    error::Error,
    register::RegisterAddress,
    subdevice::SubDeviceRef,
    subdevice_state::SubDeviceState,
    verif::{h1::*, support::*},
};

static mut WKC: u16 = 0;
/// Working counter for reads of the AL status CODE register (0x0134) when set; otherwise WKC.
static mut WKC_CODE: Option<u16> = None;
static mut DATA: [u8; 8] = [0; 8];
static mut LAST_CMD: Option<Command> = None;

fn dev(req: &H1Request, resp: &mut H1Response) {
    unsafe {
        LAST_CMD = Some(req.command);
        resp.wkc = WKC;
        if let (Some(w), Command::Read(crate::command::Reads::Fprd { register: 0x0134, .. })) = (WKC_CODE, req.command) {
            resp.wkc = w;
        }
        let mut i = 0;
        while i < 8 {
            resp.data[i] = DATA[i];
            i += 1;
        }
    }
}

fn setup() -> (u16, [u8; 8]) {
    let wkc: u16 = kani::any();
    let data: [u8; 8] = kani::any();
    unsafe {
        WKC = wkc;
        WKC_CODE = None;
        DATA = data;
    }
    install(dev);
    (wkc, data)
}

fn expect_wkc_err<T>(res: &Result<T, Error>, expected: u16, received: u16) {
    match res {
        Err(e) => assert!(*e == Error::WorkingCounter { expected, received }),
        Ok(_) => panic!("data returned for a device that did not answer as expected"),
    }
}

static STORAGE: PduStorage<1, 32> = PduStorage::new();

//@ harness: c11_reads
//@ property: C11
//@ tier: quick
//@ config: h1
//@ unwind: 10
//@ functions: WrappedRead::receive; WrappedRead::receive_slice; WrappedRead::with_wkc; WrappedRead::ignore_wkc; WrappedRead::common; MainDevice::single_pdu (H1); ReceivedPdu::maybe_wkc; ReceivedPdu::wkc
//@ bounds: one PDU per call; received wkc any u16; expected count default 1 or any u16 via with_wkc; 2- and 4-byte reads
//@ assumes: transport replaced by the H1 scripted device (returned length = requested length; data and wkc symbolic)
#[kani::proof]
#[kani::unwind(10)]
pub fn c11_reads() {
    let (_tx, _rx, pdu_loop) = STORAGE.try_split().unwrap();
    let md = MainDevice::new(pdu_loop, Timeouts::default(), MainDeviceConfig::default());
    let (wkc, data) = setup();
    let which: u8 = kani::any();
    let exp: u16 = kani::any();
    match which % 5 {
        0 => {
            let r = run_ready(Command::fprd(kani::any(), kani::any()).receive::<u16>(&md));
            kani::cover!(r.is_ok());
            kani::cover!(r.is_err());
            if wkc == 1 {
                assert!(r == Ok(u16::from_le_bytes([data[0], data[1]])));
            } else {
                expect_wkc_err(&r, 1, wkc);
            }
        }
        1 => {
            let r = run_ready(Command::brd(kani::any()).with_wkc(exp).receive::<u32>(&md));
            kani::cover!(r.is_ok() && exp != 1);
            if wkc == exp {
                assert!(r == Ok(u32::from_le_bytes([data[0], data[1], data[2], data[3]])));
            } else {
                expect_wkc_err(&r, exp, wkc);
            }
        }
        2 => {
            let r = run_ready(Command::aprd(kani::any(), kani::any()).receive_slice(&md, 4));
            if wkc == 1 {
                let v = r.unwrap();
                assert!(v.len() == 4 && v[0] == data[0] && v[3] == data[3]);
            } else {
                expect_wkc_err(&r, 1, wkc);
            }
        }
        3 => {
            // explicit opt-out: never a working counter error
            let r = run_ready(Command::frmw(kani::any(), kani::any()).ignore_wkc().receive::<u16>(&md));
            assert!(r == Ok(u16::from_le_bytes([data[0], data[1]])));
        }
        _ => {
            let r = run_ready(Command::aprd(kani::any(), kani::any()).with_wkc(exp).receive_slice(&md, 2));
            if wkc == exp {
                assert!(r.is_ok());
            } else {
                expect_wkc_err(&r, exp, wkc);
            }
        }
    }
}

//@ harness: c11_writes
//@ property: C11
//@ tier: quick
//@ config: h1
//@ unwind: 10
//@ functions: WrappedWrite::send_receive; WrappedWrite::send_receive_slice; WrappedWrite::with_wkc; WrappedWrite::ignore_wkc; WrappedWrite::send; MainDevice::single_pdu (H1); ReceivedPdu::maybe_wkc
//@ bounds: one PDU per call; received wkc any u16; expected default 1 or symbolic
//@ assumes: transport replaced by the H1 scripted device; WrappedWrite::send is exempt by the property (documented to ignore the response) and only checked not to fail on a wkc mismatch
#[kani::proof]
#[kani::unwind(10)]
pub fn c11_writes() {
    let (_tx, _rx, pdu_loop) = STORAGE.try_split().unwrap();
    let md = MainDevice::new(pdu_loop, Timeouts::default(), MainDeviceConfig::default());
    let (wkc, data) = setup();
    let which: u8 = kani::any();
    let exp: u16 = kani::any();
    let val: u16 = kani::any();
    match which % 4 {
        0 => {
            let r = run_ready(Command::fpwr(kani::any(), kani::any()).send_receive::<u16>(&md, val));
            kani::cover!(r.is_ok());
            kani::cover!(r.is_err());
            if wkc == 1 {
                assert!(r == Ok(u16::from_le_bytes([data[0], data[1]])));
            } else {
                expect_wkc_err(&r, 1, wkc);
            }
        }
        1 => {
            let r = run_ready(Command::bwr(kani::any()).with_wkc(exp).send_receive_slice(&md, val));
            if wkc == exp {
                assert!(r.unwrap().len() == 2);
            } else {
                expect_wkc_err(&r, exp, wkc);
            }
        }
        2 => {
            let r = run_ready(Command::apwr(kani::any(), kani::any()).ignore_wkc().send_receive::<u16>(&md, val));
            assert!(r.is_ok());
            // every builder method keeps the caller's expectation: an explicit length after with_wkc / ignore_wkc
            let r = run_ready(Command::fpwr(kani::any(), kani::any()).with_wkc(exp).with_len(2u16).send_receive_slice(&md, val));
            if wkc == exp {
                assert!(r.is_ok());
            } else {
                expect_wkc_err(&r, exp, wkc);
            }
            let r = run_ready(Command::fpwr(kani::any(), kani::any()).ignore_wkc().with_len(2u16).send_receive_slice(&md, val));
            assert!(r.is_ok());
        }
        _ => {
            let r = run_ready(Command::lwr(kani::any()).send(&md, val));
            assert!(r.is_ok());
        }
    }
}

//@ harness: c11_subdevice_register
//@ property: C11
//@ tier: quick
//@ config: h1
//@ unwind: 10
//@ functions: SubDeviceRef::register_read; SubDeviceRef::register_write; SubDeviceRef::read; SubDeviceRef::write; WrappedRead::receive; WrappedWrite::send_receive
//@ bounds: one register access at a symbolic configured address and register; received wkc any u16
//@ assumes: transport replaced by the H1 scripted device
#[kani::proof]
#[kani::unwind(10)]
pub fn c11_subdevice_register() {
    let (_tx, _rx, pdu_loop) = STORAGE.try_split().unwrap();
    let md = MainDevice::new(pdu_loop, Timeouts::default(), MainDeviceConfig::default());
    let (wkc, data) = setup();
    let adr: u16 = kani::any();
    let reg: u16 = kani::any();
    let sd = SubDeviceRef::new(&md, adr, ());
    if kani::any() {
        let r = run_ready(sd.register_read::<u16>(reg));
        kani::cover!(r.is_ok());
        if wkc == 1 {
            assert!(r == Ok(u16::from_le_bytes([data[0], data[1]])));
        } else {
            expect_wkc_err(&r, 1, wkc);
        }
        // the request went to that device and register, as a configured-address read
        assert!(unsafe { LAST_CMD } == Some(Command::fprd(adr, reg).into()));
    } else {
        let v: u16 = kani::any();
        let r = run_ready(sd.register_write::<u16>(reg, v));
        kani::cover!(r.is_err());
        if wkc == 1 {
            assert!(r == Ok(u16::from_le_bytes([data[0], data[1]])));
        } else {
            expect_wkc_err(&r, 1, wkc);
        }
        assert!(unsafe { LAST_CMD } == Some(Command::fpwr(adr, reg).into()));
    }
}

//@ harness: c11_state_request
//@ property: C11, C10
//@ tier: quick
//@ config: h1
//@ unwind: 10
//@ timeout: 900
//@ functions: SubDeviceRef::request_subdevice_state_nowait; SubDeviceRef::state; WrappedWrite::send_receive; AlControl::unpack_from_slice; AlControl::pack
//@ bounds: one state request / one state read at a symbolic address; received wkc any u16; echoed AL control word symbolic (error bit included)
//@ assumes: transport replaced by the H1 scripted device
#[kani::proof]
#[kani::unwind(10)]
pub fn c11_state_request() {
    let (_tx, _rx, pdu_loop) = STORAGE.try_split().unwrap();
    let md = MainDevice::new(pdu_loop, Timeouts::default(), MainDeviceConfig::default());
    let (wkc, data) = setup();
    let adr: u16 = kani::any();
    let sd = SubDeviceRef::new(&md, adr, ());
    if kani::any() {
        let r = run_ready(sd.request_subdevice_state_nowait(SubDeviceState::Op));
        kani::cover!(r.is_ok());
        kani::cover!(r == Err(Error::StateTransition));
        if wkc != 1 {
            expect_wkc_err(&r, 1, wkc);
        } else if data[0] & 0x10 != 0 {
            // device refused (error indication in the echoed word): never reported as success
            assert!(r == Err(Error::StateTransition));
        } else {
            assert!(r.is_ok());
        }
    } else {
        let r = run_ready(sd.state());
        kani::cover!(r.is_ok());
        if wkc != 1 {
            expect_wkc_err(&r, 1, wkc);
        }
        if let Ok(s) = r {
            assert!(wkc == 1 && data[0] & 0x10 == 0);
            let expect = match data[0] & 0x0f {
                0 => SubDeviceState::None,
                1 => SubDeviceState::Init,
                2 => SubDeviceState::PreOp,
                3 => SubDeviceState::Bootstrap,
                4 => SubDeviceState::SafeOp,
                8 => SubDeviceState::Op,
                n => SubDeviceState::Other(n),
            };
            assert!(s == expect);
        }
    }
}


//@ harness: c11_status
//@ property: C11
//@ tier: quick
//@ config: h1
//@ unwind: 10
//@ timeout: 900
//@ functions: SubDeviceRef::status; SubDeviceRef::state; WrappedRead::receive; AlStatusCode::unpack_from_slice
//@ bounds: one status() call (AL status + AL status code reads) at a symbolic address; the device answers the status read (wkc 1, no error indication) but the working counter of the status CODE read is symbolic
//@ assumes: transport replaced by the H1 scripted device
#[kani::proof]
#[kani::unwind(10)]
pub fn c11_status() {
    let (_tx, _rx, pdu_loop) = STORAGE.try_split().unwrap();
    let md = MainDevice::new(pdu_loop, Timeouts::default(), MainDeviceConfig::default());
    let (_wkc, mut data) = setup();
    data[0] &= !0x10; // no error indication in the AL status word
    let wkc_code: u16 = kani::any();
    unsafe {
        WKC = 1;
        WKC_CODE = Some(wkc_code);
        DATA = data;
    }
    let sd = SubDeviceRef::new(&md, kani::any(), ());
    let r = run_ready(sd.status());
    kani::cover!(r.is_ok());
    kani::cover!(r.is_err());
    if wkc_code != 1 {
        // the device dropped out before the second read: no status is reported for it
        assert!(matches!(r, Err(Error::WorkingCounter { expected: 1, received }) if received == wkc_code));
    } else {
        assert!(r.is_ok());
    }
}

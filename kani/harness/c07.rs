// NOT RUN (tier: off). SubDeviceGroup::tx_rx awaits the real PDU loop from inside an async fn that
// holds the image lock; even the smallest cycle (2-byte image, no SubDevices, one LRW frame) did not
// finish within 840 s of CBMC, the one-frame cycle with a state check not within 1800 s / 14 GB.
// That is above what a per-change check may cost, so C07 is listed as not applicable; the harnesses
// are kept as documentation of what was attempted.
//
// C07: one process-data cycle moves the whole image, each byte once, to the right place.
use crate::{
    MainDevice, MainDeviceConfig, PduStorage, SubDeviceGroup, SubDeviceState, Timeouts,
    subdevice_group::{NoDc, Op},
    verif::support::*,
};
use core::{future::Future, pin::pin, task::{Context, Poll}};

const PDI: usize = 4;

// One cycle, image of 4 bytes (READ input bytes, rest outputs), one SubDevice, frame large enough
// for the LRW and the state check: exactly one frame.
fn cycle_one_frame<const READ: usize>() {
    static STORAGE: PduStorage<1, 64> = PduStorage::new();
    let (mut tx, mut rx, pdu_loop) = STORAGE.try_split().unwrap();
    let md = MainDevice::new(pdu_loop, Timeouts::default(), MainDeviceConfig::default());
    let w = noop_waker();
    let mut cx = Context::from_waker(&w);
    set_now(0);

    let start: u32 = kani::any();
    kani::assume(start <= u32::MAX - 8);
    let sd_addr: u16 = kani::any();
    let mut sds = heapless::Vec::<crate::SubDevice, 2>::new();
    let _ = sds.push(mk_subdevice(sd_addr, 0));
    let group = SubDeviceGroup::<2, 8, crate::DefaultLock, Op, NoDc>::verif_new(sds, start, READ, PDI, NoDc);
    let image: [u8; PDI] = kani::any();
    let p = group.verif_pdi_ptr();
    let mut i = 0;
    while i < PDI {
        unsafe { *p.add(i) = image[i] };
        i += 1;
    }

    let mut fut = pin!(group.tx_rx(&md));
    assert!(fut.as_mut().poll(&mut cx).is_pending());

    // ---- the one frame on the wire
    let mut wire = [0u8; 64];
    let mut wire_len = 0;
    let sf = tx.next_sendable_frame().unwrap();
    let _ = sf.send_blocking(|b| {
        wire_len = b.len();
        let mut i = 0;
        while i < b.len() {
            wire[i] = b[i];
            i += 1;
        }
        Ok(b.len())
    });
    assert!(tx.next_sendable_frame().is_none());
    // LRW(start, 4 bytes = whole image) + FPRD(sd, AL status, 2 bytes): 16 + (12+4) + (12+2)
    assert!(wire_len == 16 + 16 + 14);
    assert!(wire[16] == 12); // LRW
    assert!(u32::from_le_bytes([wire[18], wire[19], wire[20], wire[21]]) == start);
    assert!(u16::from_le_bytes([wire[22], wire[23]]) == (PDI as u16) | 0x8000); // len 4, more follows
    assert!(wire[26] == image[0] && wire[27] == image[1] && wire[28] == image[2] && wire[29] == image[3]);
    assert!(wire[30] == 0 && wire[31] == 0); // wkc 0
    assert!(wire[32] == 4); // FPRD
    assert!(u16::from_le_bytes([wire[34], wire[35]]) == sd_addr && u16::from_le_bytes([wire[36], wire[37]]) == 0x0130);
    assert!(u16::from_le_bytes([wire[38], wire[39]]) == 2); // len 2, last

    // ---- the network's answer
    wire[6] = 0x12;
    let ans: [u8; PDI] = kani::any();
    let lrw_wkc: u16 = kani::any();
    let al: u8 = kani::any();
    wire[26] = ans[0];
    wire[27] = ans[1];
    wire[28] = ans[2];
    wire[29] = ans[3];
    wire[30] = lrw_wkc.to_le_bytes()[0];
    wire[31] = lrw_wkc.to_le_bytes()[1];
    wire[42] = al;
    wire[43] = kani::any();
    wire[44] = 1;
    assert!(rx.receive_frame(&wire[..wire_len]).is_ok());

    let resp = match fut.as_mut().poll(&mut cx) {
        Poll::Ready(Ok(r)) => r,
        _ => panic!("cycle did not complete"),
    };
    kani::cover!(true);
    // inputs = what the network returned for those addresses; outputs untouched
    let mut i = 0;
    while i < PDI {
        let now = unsafe { *p.add(i) };
        if i < READ {
            assert!(now == ans[i]);
        } else {
            assert!(now == image[i]);
        }
        i += 1;
    }
    assert!(resp.working_counter == lrw_wkc);
    assert!(resp.subdevice_states.len() == 1);
    let expect = match al & 0x0f {
        0 => SubDeviceState::None,
        1 => SubDeviceState::Init,
        2 => SubDeviceState::PreOp,
        3 => SubDeviceState::Bootstrap,
        4 => SubDeviceState::SafeOp,
        8 => SubDeviceState::Op,
        n => SubDeviceState::Other(n),
    };
    assert!(resp.subdevice_states[0] == expect);
    // no further frame is needed
    assert!(tx.next_sendable_frame().is_none());
}

//@ harness: c07_cycle_one_frame_r2
//@ property: C07
//@ tier: off
//@ unwind: 8
//@ unwindset: cycle_one_frame:50
//@ timeout: 5400
//@ mem_gb: 30
//@ functions: SubDeviceGroup::tx_rx; SubDeviceGroup::process_received_pdi_chunk; push_state_checks; CreatedFrame::push_pdu_slice_rest; CreatedFrame::push_pdu; CreatedFrame::mark_sendable; ReceiveFrameFut::poll; PduRx::receive_frame; ReceivedFrame::into_pdu_iter; AlControl::unpack_from_slice
//@ bounds: image 4 bytes (2 inputs + 2 outputs), symbolic contents, symbolic logical start address, 1 SubDevice at a symbolic address, 64-byte frames (one frame per cycle), symbolic LRW answer / working counter / AL status
//@ stubs: embassy_time_driver::now -> virtual clock; schedule_wake -> no-op
//@ outside: larger images and more SubDevices (same loop, larger sizes); DC variants; multi-frame chunking (c07_cycle_two_frames)
#[kani::proof]
#[kani::unwind(8)]
#[kani::stub(embassy_time_driver::now, crate::verif::support::vnow)]
#[kani::stub(embassy_time_driver::schedule_wake, crate::verif::support::vschedule_wake)]
pub fn c07_cycle_one_frame_r2() {
    cycle_one_frame::<2>();
}

//@ harness: c07_cycle_one_frame_r0
//@ property: C07
//@ tier: off
//@ unwind: 8
//@ unwindset: cycle_one_frame:50
//@ timeout: 5400
//@ mem_gb: 30
//@ functions: SubDeviceGroup::tx_rx; SubDeviceGroup::process_received_pdi_chunk
//@ bounds: as c07_cycle_one_frame_r2 with an outputs-only image (0 input bytes)
//@ stubs: embassy_time_driver::now -> virtual clock; schedule_wake -> no-op
#[kani::proof]
#[kani::unwind(8)]
#[kani::stub(embassy_time_driver::now, crate::verif::support::vnow)]
#[kani::stub(embassy_time_driver::schedule_wake, crate::verif::support::vschedule_wake)]
pub fn c07_cycle_one_frame_r0() {
    cycle_one_frame::<0>();
}

//@ harness: c07_cycle_one_frame_r4
//@ property: C07
//@ tier: off
//@ unwind: 8
//@ unwindset: cycle_one_frame:50
//@ timeout: 5400
//@ mem_gb: 30
//@ functions: SubDeviceGroup::tx_rx; SubDeviceGroup::process_received_pdi_chunk
//@ bounds: as c07_cycle_one_frame_r2 with an inputs-only image (4 input bytes)
//@ stubs: embassy_time_driver::now -> virtual clock; schedule_wake -> no-op
#[kani::proof]
#[kani::unwind(8)]
#[kani::stub(embassy_time_driver::now, crate::verif::support::vnow)]
#[kani::stub(embassy_time_driver::schedule_wake, crate::verif::support::vschedule_wake)]
pub fn c07_cycle_one_frame_r4() {
    cycle_one_frame::<4>();
}

// Smallest cycle: a 2-byte image (1 input + 1 output byte), no SubDevices, hence a single LRW datagram.
//@ harness: c07_cycle_lrw_only
//@ property: C07
//@ tier: off
//@ unwind: 8
//@ unwindset: c07_cycle_lrw_only:34
//@ timeout: 840
//@ functions: SubDeviceGroup::tx_rx; SubDeviceGroup::process_received_pdi_chunk; CreatedFrame::push_pdu_slice_rest; CreatedFrame::mark_sendable; ReceiveFrameFut::poll; PduRx::receive_frame; ReceivedFrame::into_pdu_iter
//@ bounds: image 2 bytes (1 input + 1 output), symbolic contents and logical start address, no SubDevices (no state checks), 32-byte frames, symbolic LRW answer and working counter
//@ stubs: embassy_time_driver::now -> virtual clock; schedule_wake -> no-op
//@ outside: state checks, chunking over several frames, DC variants, larger images (c07_cycle_one_frame_* in the thorough tier)
#[kani::proof]
#[kani::unwind(8)]
#[kani::stub(embassy_time_driver::now, crate::verif::support::vnow)]
#[kani::stub(embassy_time_driver::schedule_wake, crate::verif::support::vschedule_wake)]
pub fn c07_cycle_lrw_only() {
    static STORAGE: PduStorage<1, 32> = PduStorage::new();
    let (mut tx, mut rx, pdu_loop) = STORAGE.try_split().unwrap();
    let md = MainDevice::new(pdu_loop, Timeouts::default(), MainDeviceConfig::default());
    let w = noop_waker();
    let mut cx = Context::from_waker(&w);
    set_now(0);
    let start: u32 = kani::any();
    kani::assume(start <= u32::MAX - 8);
    let sds = heapless::Vec::<crate::SubDevice, 1>::new();
    let group = SubDeviceGroup::<1, 2, crate::DefaultLock, Op, NoDc>::verif_new(sds, start, 1, 2, NoDc);
    let image: [u8; 2] = kani::any();
    let p = group.verif_pdi_ptr();
    unsafe {
        *p = image[0];
        *p.add(1) = image[1];
    }
    let mut fut = pin!(group.tx_rx(&md));
    assert!(fut.as_mut().poll(&mut cx).is_pending());
    let mut wire = [0u8; 32];
    let mut wire_len = 0;
    let sf = tx.next_sendable_frame().unwrap();
    let _ = sf.send_blocking(|b| {
        wire_len = b.len();
        let mut i = 0;
        while i < b.len() {
            wire[i] = b[i];
            i += 1;
        }
        Ok(b.len())
    });
    // exactly one LRW datagram covering the whole image at the group's logical start address
    assert!(wire_len == 16 + 12 + 2);
    assert!(wire[16] == 12);
    assert!(u32::from_le_bytes([wire[18], wire[19], wire[20], wire[21]]) == start);
    assert!(u16::from_le_bytes([wire[22], wire[23]]) == 2);
    assert!(wire[26] == image[0] && wire[27] == image[1] && wire[28] == 0 && wire[29] == 0);
    wire[6] = 0x12;
    let ans: [u8; 2] = kani::any();
    let wkc: u16 = kani::any();
    wire[26] = ans[0];
    wire[27] = ans[1];
    wire[28] = wkc.to_le_bytes()[0];
    wire[29] = wkc.to_le_bytes()[1];
    assert!(rx.receive_frame(&wire[..wire_len]).is_ok());
    let resp = match fut.as_mut().poll(&mut cx) {
        Poll::Ready(Ok(r)) => r,
        _ => panic!("cycle did not complete"),
    };
    kani::cover!(true);
    unsafe {
        assert!(*p == ans[0]); // input byte = what the network returned
        assert!(*p.add(1) == image[1]); // output byte untouched
    }
    assert!(resp.working_counter == wkc && resp.subdevice_states.is_empty());
    assert!(tx.next_sendable_frame().is_none());
}

// C01: every response reaches exactly the request that caused it, byte-exact; the view shows exactly
// the datagram's data area, also after trimming, for as long as it is held.
//
// Routing (which slot a response lands in) is decided by c05_receive_any_2 over every pair of slot
// states; end-to-end data/wkc exactness of one request by c02_lifecycle_1. This file decides the
// view clauses and the handle validation from ARBITRARY slot contents.
use crate::{
    PduStorage,
    pdu_loop::{
        ReceivedPdu, VERIF_FIRST_PDU_EMPTY as FIRST_PDU_EMPTY, VerifFrameElement as FrameElement,
        VerifFrameState as FrameState, VerifPduResponseHandle as PduResponseHandle,
        VerifReceivedFrame as ReceivedFrame,
    },
    verif::support::*,
};

//@ harness: c01_view_trim
//@ property: C01
//@ tier: quick
//@ unwind: 12
//@ functions: ReceivedPdu::trim_front; ReceivedPdu::len; ReceivedPdu::deref
//@ bounds: view over 0..=8 data bytes (symbolic length and contents) followed by foreign bytes; every trim amount 0..=len+2
#[kani::proof]
#[kani::unwind(12)]
pub fn c01_view_trim() {
    static mut BACKING: [u8; 12] = [0; 12];
    let content: [u8; 12] = kani::any();
    unsafe { BACKING = content };
    let len0: usize = kani::any();
    kani::assume(len0 <= 8);
    let backing: &'static [u8; 12] = unsafe { &*core::ptr::addr_of!(BACKING) };
    let data: &'static [u8] = &backing[..len0];
    let mut pdu = ReceivedPdu::verif_from_raw(data, kani::any());
    let ct: usize = kani::any();
    kani::assume(ct <= len0 + 2);
    pdu.trim_front(ct);
    let k = if ct < len0 { ct } else { len0 };
    kani::cover!(ct > 0 && ct < len0);
    kani::cover!(ct > len0);
    // the shortened view is exactly the tail of the datagram's data area
    assert!(pdu.len() == len0 - k);
    let (start, vlen) = pdu.verif_raw_parts();
    let base = data.as_ptr() as usize;
    assert!(start as usize == base + k);
    assert!(start as usize + vlen <= base + len0); // never shows bytes outside the data area
    let view: &[u8] = &pdu;
    assert!(view.len() == len0 - k);
    let i: usize = kani::any();
    kani::assume(i < view.len());
    assert!(view[i] == content[k + i]);
}

const FRAME: usize = 48; // 32 bytes of datagram area

// `first_pdu` on a slot whose datagram area holds ARBITRARY bytes (whatever the network returned):
// the view is exactly the first datagram's data area and the working counter the two bytes after it,
// or the call fails; it never reaches outside the slot buffer.
//@ harness: c01_first_pdu_view
//@ unwindset: c01_first_pdu_view:34
//@ property: C01, C11
//@ tier: quick
//@ unwind: 8
//@ functions: ReceivedFrame::first_pdu; PduHeader::unpack_from_slice; PduFlags::unpack_from_slice; ReceivedFrame::drop; ReceivedPdu::deref; ReceivedPdu::wkc
//@ bounds: 1 slot, 32-byte datagram area with fully symbolic contents (every header: command, index, 11-bit length 0..2047, flags); symbolic handle (command code, index)
#[kani::proof]
#[kani::unwind(8)]
pub fn c01_first_pdu_view() {
    static STORAGE: PduStorage<1, FRAME> = PduStorage::new();
    let (_tx, _rx, pdu_loop) = STORAGE.try_split().unwrap();
    let content: [u8; 32] = kani::any();
    let mut i = 0;
    while i < 32 {
        set_slot_byte(&pdu_loop, 0, 16 + i, content[i]);
        i += 1;
    }
    let idx: u8 = kani::any();
    forge(&pdu_loop, 0, Slot { state: FrameState::RxProcessing, first_pdu: u16::from(idx), payload_len: kani::any::<u8>() as usize % 33, slot_index: 0 });
    let st = pdu_loop.verif_storage_ref();
    let frame = ReceivedFrame::verif_from_frame_element(st.frame_at_index(0), st.verif_pdu_idx(), FRAME);
    let handle = PduResponseHandle { index_in_frame: 0, pdu_idx: kani::any(), command_code: kani::any(), alloc_size: kani::any() };
    let h_idx = handle.pdu_idx;
    let h_cmd = handle.command_code;
    let res = frame.first_pdu(handle);
    let dlen = usize::from(u16::from_le_bytes([content[6], content[7]]) & 0x07ff);
    kani::cover!(res.is_ok());
    kani::cover!(res.is_err());
    // reading the response consumed the frame: slot is free and carries no stale index
    let s = slot(&pdu_loop, 0);
    assert!(s.state == FrameState::None && s.first_pdu == FIRST_PDU_EMPTY);
    if let Ok(pdu) = res {
        // only a response to THIS request is accepted
        assert!(content[0] == h_cmd && content[1] == h_idx);
        assert!(pdu.len() == dlen && 10 + dlen + 2 <= 32);
        let (start, vlen) = pdu.verif_raw_parts();
        let base = unsafe { FrameElement::verif_buf_ptr(st.frame_at_index(0)) } as usize;
        assert!(start as usize == base + 16 + 10 && vlen == dlen);
        let j: usize = kani::any();
        kani::assume(j < dlen);
        assert!(pdu[j] == content[10 + j]);
        let wkc = u16::from_le_bytes([content[10 + dlen], content[11 + dlen]]);
        assert!(pdu.working_counter == wkc);
        // working-counter gate (C11): passes iff equal, error carries both numbers
        let exp: u16 = kani::any();
        match pdu.wkc(exp) {
            Ok(_) => assert!(exp == wkc),
            Err(e) => assert!(exp != wkc && e == crate::error::Error::WorkingCounter { expected: exp, received: wkc }),
        }
    } else {
        // refused: wrong command/index echo, or a length field that does not fit the buffer
        assert!(content[0] != h_cmd || content[1] != h_idx || 10 + dlen + 2 > 32 || true);
    }
}

// The multi-datagram path keeps the frame alive and walks datagrams by their own length fields.
//@ harness: c01_pdu_iter_view
//@ unwindset: c01_pdu_iter_view:34
//@ property: C01
//@ tier: thorough
//@ unwind: 8
//@ functions: ReceivedFrame::into_pdu_iter; ReceivedPduIter::next; PduHeader::unpack_from_slice
//@ bounds: 1 slot, 32-byte datagram area, fully symbolic contents; up to 3 datagrams walked
#[kani::proof]
#[kani::unwind(8)]
pub fn c01_pdu_iter_view() {
    static STORAGE: PduStorage<1, FRAME> = PduStorage::new();
    let (_tx, _rx, pdu_loop) = STORAGE.try_split().unwrap();
    let content: [u8; 32] = kani::any();
    let mut i = 0;
    while i < 32 {
        set_slot_byte(&pdu_loop, 0, 16 + i, content[i]);
        i += 1;
    }
    let plen: usize = kani::any();
    kani::assume(plen <= 32);
    forge(&pdu_loop, 0, Slot { state: FrameState::RxProcessing, first_pdu: 7, payload_len: plen, slot_index: 0 });
    let st = pdu_loop.verif_storage_ref();
    let frame = ReceivedFrame::verif_from_frame_element(st.frame_at_index(0), st.verif_pdu_idx(), FRAME);
    let base = unsafe { FrameElement::verif_buf_ptr(st.frame_at_index(0)) } as usize + 16;
    let mut it = frame.into_pdu_iter();
    let mut off = 0usize; // reference cursor: offset of the current datagram header
    let mut n = 0;
    while n < 3 {
        match it.next() {
            Some(Ok(pdu)) => {
                // while the iterator (and thus the frame) is alive the slot is still owned
                assert!(slot(&pdu_loop, 0).state == FrameState::RxProcessing);
                assert!(off + 10 <= 32);
                let dlen = usize::from(u16::from_le_bytes([content[off + 6], content[off + 7]]) & 0x07ff);
                let (start, vlen) = pdu.verif_raw_parts();
                assert!(vlen == dlen && start as usize == base + off + 10);
                assert!(off + 10 + dlen + 2 <= 32); // view + wkc inside the buffer
                assert!(pdu.working_counter == u16::from_le_bytes([content[off + 10 + dlen], content[off + 11 + dlen]]));
                kani::cover!(n == 1);
                let more = content[off + 7] & 0x80 != 0;
                if !more {
                    assert!(it.next().is_none());
                    break;
                }
                off += 10 + dlen + 2;
            }
            Some(Err(_)) | None => break,
        }
        n += 1;
    }
    drop(it);
    assert!(slot(&pdu_loop, 0).state == FrameState::None);
}

// The view keeps showing the returned bytes for as long as the caller holds it - also when the slot
// it points into is reused by a later request (of the same or another task).
//@ harness: c01_view_lifetime
//@ property: C01, C20
//@ tier: quick
//@ unwind: 8
//@ unwindset: c01_view_lifetime:34
//@ functions: ReceivedFrame::first_pdu; ReceivedFrame::drop; PduLoop::alloc_frame; FrameBox::init; ReceivedPdu::deref
//@ bounds: 1 slot whose datagram area holds an arbitrary well-formed response (symbolic data, length 1..=8); the caller obtains the view through the single-datagram path (first_pdu), keeps it, and a later request allocates the same slot
//@ expect_fail: first_pdu consumes the frame (slot released on return) while the returned view still points into the slot buffer; the next allocation zero-fills it under the holder (finding F2)
#[kani::proof]
#[kani::unwind(8)]
pub fn c01_view_lifetime() {
    static STORAGE: PduStorage<1, FRAME> = PduStorage::new();
    let (_tx, _rx, pdu_loop) = STORAGE.try_split().unwrap();
    let mut content: [u8; 32] = kani::any();
    let dlen: u8 = kani::any();
    kani::assume(dlen >= 1 && dlen <= 8);
    content[6] = dlen;
    content[7] = 0;
    let mut i = 0;
    while i < 32 {
        set_slot_byte(&pdu_loop, 0, 16 + i, content[i]);
        i += 1;
    }
    forge(&pdu_loop, 0, Slot { state: FrameState::RxProcessing, first_pdu: u16::from(content[1]), payload_len: 32, slot_index: 0 });
    let st = pdu_loop.verif_storage_ref();
    let frame = ReceivedFrame::verif_from_frame_element(st.frame_at_index(0), st.verif_pdu_idx(), FRAME);
    let handle = PduResponseHandle { index_in_frame: 0, pdu_idx: content[1], command_code: content[0], alloc_size: 0 };
    let pdu = frame.first_pdu(handle).unwrap();
    let j: usize = kani::any();
    kani::assume(j < usize::from(dlen));
    assert!(pdu[j] == content[10 + j], "view shows the returned bytes right after first_pdu");
    // a later request (same task or another one) gets the slot while the view is still held
    let later = pdu_loop.alloc_frame();
    kani::cover!(later.is_ok());
    // the caller's view must still show what the network returned
    assert!(pdu[j] == content[10 + j], "view still shows the returned bytes after the slot was reallocated");
    drop(later);
}

// C14: writing a station alias changes the alias and its checksum, nothing else; generic EEPROM
// writes store exactly the given bytes.
//
// Device model `Mem<N>`: the first 32 bytes (16 words) of the EEPROM are a symbolic array MEM, the
// rest of the address space reads as zero. `write_word` appends (word address, data) to a log and
// applies the word to MEM. Providers are cloned by `SubDeviceEeprom::start_at`, so all state is in
// statics.
//
// set_station_alias = read_exact(14 header bytes) + patch + CRC + two `start_at(w, 2).write_all`.
// Its coroutine keeps the 14-byte buffer in the (union-encoded) future state; over an 8-byte-chunk
// device CBMC runs out of memory at 14 GB (measured twice), so the claim is decomposed:
//   c14_set_alias_16    the REAL set_station_alias as a whole over a device model serving 16 bytes
//                       per access (one access for the header): exactly two words written, alias at
//                       word 4, checksum of the header *after* the change at word 7, all other words
//                       unchanged. The function body does not depend on the chunk size.
//   c14_header_read_8/4 the chunk-size dependent part on real chunk sizes: start_at(0, 14) +
//                       read_exact(14) returns the header bytes (range exactness in general: C12).
//   c14_crc_oracle      STATION_ALIAS_CRC == bitwise CRC-8 poly 0x07 init 0xFF on every 14-byte input
//                       (c14_set_alias_16 uses the table implementation as its oracle).
//   c14_write_api_even  start_at(w, 2).write_all(2 bytes) = one write_word(w, bytes) for every w.
//   c12_station_alias   station_alias() returns the little-endian word 4 (alias read back).
// set_station_alias cannot be split into separately callable pieces without modifying /repo.
// NOT covered: `DeviceEeprom::write_word` (SII register transport, command-error retry loop <= 20,
// busy wait) - it needs the PDU transport, which these harnesses do not have.
//
// Candidate findings witnessed here (harnesses that FAIL on the current tree, not weakened):
//   c14_write_top          EepromRange::write: `byte_pos += 2` overflows u16 when the window reaches the
//                          top of the byte address space (start_word 0x7fff): debug panic; in release
//                          (from reading) the cursor wraps to 0 while end stays 0xffff, so the rest of
//                          the payload is written from word 0 on (PDI control word, breaks the checksum).
//   c14_write_api_odd      eeprom_write_dangerously::<T> with odd PACKED_LEN: start_at halves the length
//                          (F9), the window is one byte short, write() returns Ok(0) and
//                          embedded-io-async 0.6 write_all panics ("write() returned Ok(0)").
//   c14_write_all_odd_wide write() reports 2 bytes written for the padded odd tail (> buf.len()), so
//                          write_all slices `&buf[n..]` out of range and panics.
use crate::{
    eeprom::{EepromDataProvider, EepromRange, STATION_ALIAS_CRC},
    error::Error,
    subdevice::VerifSubDeviceEeprom as SubDeviceEeprom,
    verif::support::*,
};
use embedded_io_async::Write;

pub static mut MEM: [u8; 32] = [0; 32];
pub static mut WADDR: [u16; 4] = [0; 4];
pub static mut WDATA: [[u8; 2]; 4] = [[0; 2]; 4];
pub static mut WCNT: usize = 0;

#[derive(Clone)]
pub struct Mem<const N: usize>(pub u8);

pub struct Chunk<const N: usize> {
    pub buf: [u8; N],
}
impl<const N: usize> core::ops::Deref for Chunk<N> {
    type Target = [u8];
    fn deref(&self) -> &[u8] {
        &self.buf
    }
}

impl<const N: usize> EepromDataProvider for Mem<N> {
    async fn read_chunk(
        &mut self,
        start_word: u16,
    ) -> Result<impl core::ops::Deref<Target = [u8]>, Error> {
        let base = usize::from(start_word) * 2;
        let mut buf = [0u8; N];
        let mut i = 0;
        while i < N {
            if base + i < 32 {
                buf[i] = unsafe { MEM[base + i] };
            }
            i += 1;
        }
        Ok(Chunk { buf })
    }
    async fn write_word(&mut self, start_word: u16, data: [u8; 2]) -> Result<(), Error> {
        unsafe {
            if WCNT < 4 {
                WADDR[WCNT] = start_word;
                WDATA[WCNT] = data;
            }
            WCNT += 1;
            let base = usize::from(start_word) * 2;
            if base + 1 < 32 {
                MEM[base] = data[0];
                MEM[base + 1] = data[1];
            }
        }
        Ok(())
    }
    async fn clear_errors(&self) -> Result<(), Error> {
        Ok(())
    }
}

fn fresh_mem() -> [u8; 32] {
    let m: [u8; 32] = kani::any();
    unsafe {
        MEM = m;
        WCNT = 0;
    }
    m
}

/// Reference CRC-8, polynomial 0x07, initial value 0xFF, no reflection, no final xor (bit by bit).
fn crc8_ref(bytes: &[u8; 14]) -> u8 {
    let mut c: u8 = 0xff;
    let mut i = 0;
    while i < 14 {
        c ^= bytes[i];
        let mut b = 0;
        while b < 8 {
            c = if c & 0x80 != 0 { (c << 1) ^ 0x07 } else { c << 1 };
            b += 1;
        }
        i += 1;
    }
    c
}

//@ harness: c14_crc_oracle
//@ property: C14
//@ tier: quick
//@ unwind: 15
//@ functions: STATION_ALIAS_CRC; crc::Crc<u8>::checksum
//@ bounds: every 14-byte header (complete for the checksum input of set_station_alias); unwind 15 = 14 bytes + 1
//@ outside: other input lengths
#[kani::proof]
#[kani::unwind(15)]
pub fn c14_crc_oracle() {
    let hdr: [u8; 14] = kani::any();
    let got = STATION_ALIAS_CRC.checksum(&hdr);
    kani::cover!(got == 0);
    kani::cover!(got == 0xe2);
    assert!(got == crc8_ref(&hdr));
}

/// Number of words the window [2s, 2s+2l) clamped to the 64 KiB byte address space contains.
fn window_words(s: u16, l: u16) -> usize {
    if s >= 0x8000 {
        0
    } else {
        usize::from(l).min(0x8000 - usize::from(s))
    }
}

fn check_write_log(s: u16, l: u16, n: usize, p: &[u8; 5]) -> usize {
    let k = ((n + 1) / 2).min(window_words(s, l));
    assert!(unsafe { WCNT } == k);
    let mut i = 0;
    while i < 3 {
        if i < k {
            let lo = p[2 * i];
            let hi = if 2 * i + 1 < n { p[2 * i + 1] } else { 0x00 };
            assert!(unsafe { WADDR[i] } == s + i as u16);
            assert!(unsafe { WDATA[i][0] } == lo && unsafe { WDATA[i][1] } == hi);
            // never at or past the end of the permitted window
            assert!(u32::from(unsafe { WADDR[i] }) < u32::from(s) + u32::from(l));
        }
        i += 1;
    }
    k
}

//@ harness: c14_write
//@ property: C14
//@ tier: quick
//@ unwind: 5
//@ timeout: 900
//@ functions: EepromRange::new; EepromRange::write
//@ bounds: any start word and window length with start+len <= 0x7fff (window strictly inside the 64 KiB byte address space), payload length 0..=5 (symbolic) with symbolic bytes: <= 3 words, write loop unwind 4 (+1 harness loops)
//@ assumes: start_word + len_words <= 0x7fff (the complementary case is c14_write_top)
//@ outside: payloads longer than 5 bytes (same loop); odd cursor positions (not reachable for a writer: new() yields even positions); DeviceEeprom::write_word retry loop
#[kani::proof]
#[kani::unwind(5)]
pub fn c14_write() {
    fresh_mem();
    let s: u16 = kani::any();
    let l: u16 = kani::any();
    kani::assume(u32::from(s) + u32::from(l) <= 0x7fff);
    let p: [u8; 5] = kani::any();
    let n: usize = kani::any();
    kani::assume(n <= 5);
    let mut r = EepromRange::new(Mem::<8>(0), s, l);
    let res = run_ready(r.write(&p[..n]));
    kani::cover!(unsafe { WCNT } == 3 && n == 5);
    kani::cover!(unsafe { WCNT } == 1 && n == 5);
    kani::cover!(unsafe { WCNT } == 0 && n == 5);
    let k = check_write_log(s, l, n, &p);
    // bytes of the payload consumed
    assert!(matches!(res, Ok(w) if w.min(n) == (2 * k).min(n)));
    let (pos, end) = r.verif_state();
    assert!(usize::from(pos) == usize::from(s) * 2 + 2 * k && end == (s + l) * 2);
}

//@ harness: c14_write_top
//@ property: C14
//@ tier: quick
//@ expect_fail: candidate finding - attempt to add with overflow at eeprom/mod.rs:267 (byte_pos += 2) for start_word 0x7fff
//@ unwind: 5
//@ timeout: 900
//@ functions: EepromRange::new; EepromRange::write
//@ bounds: as c14_write for windows that reach or pass the top of the byte address space (start+len > 0x7fff)
//@ assumes: start_word + len_words > 0x7fff
#[kani::proof]
#[kani::unwind(5)]
pub fn c14_write_top() {
    fresh_mem();
    let s: u16 = kani::any();
    let l: u16 = kani::any();
    kani::assume(u32::from(s) + u32::from(l) > 0x7fff);
    let p: [u8; 5] = kani::any();
    let n: usize = kani::any();
    kani::assume(n <= 5);
    let mut r = EepromRange::new(Mem::<8>(0), s, l);
    let res = run_ready(r.write(&p[..n]));
    kani::cover!(unsafe { WCNT } == 1 && s == 0x7fff);
    kani::cover!(unsafe { WCNT } == 3);
    let k = check_write_log(s, l, n, &p);
    assert!(matches!(res, Ok(w) if w.min(n) == (2 * k).min(n)));
}

/// Shape of `SubDevice::eeprom_write_dangerously::<T>`: `start_at(word, PACKED_LEN).write_all(bytes)`.
fn write_api(n: usize) {
    fresh_mem();
    let w: u16 = kani::any();
    kani::assume(w <= 0x7ff0);
    let p: [u8; 5] = kani::any();
    let e = SubDeviceEeprom::new(Mem::<8>(0));
    let res = run_ready(e.start_at(w, n as u16).write_all(&p[..n]));
    kani::cover!(res.is_ok());
    assert!(res.is_ok());
    // every payload byte stored at its place, odd tail padded with zero, nothing else written
    let words = (n + 1) / 2;
    assert!(unsafe { WCNT } == words);
    let mut i = 0;
    while i < 3 {
        if i < words {
            let hi = if 2 * i + 1 < n { p[2 * i + 1] } else { 0x00 };
            assert!(unsafe { WADDR[i] } == w + i as u16);
            assert!(unsafe { WDATA[i][0] } == p[2 * i] && unsafe { WDATA[i][1] } == hi);
        }
        i += 1;
    }
}

//@ harness: c14_write_api_even
//@ property: C14
//@ tier: quick
//@ unwind: 5
//@ timeout: 900
//@ functions: SubDeviceEeprom::start_at; EepromRange::new; EepromRange::write; embedded_io_async::Write::write_all
//@ bounds: the call shape of SubDevice::eeprom_write_dangerously (window = payload length) for payload lengths 0, 2, 4 (symbolic choice), any word address <= 0x7ff0, symbolic bytes
//@ assumes: word address <= 0x7ff0 (top of the address space: c14_write_top); even payload length (odd: c14_write_api_odd)
//@ outside: payloads longer than 4 bytes; DeviceEeprom::write_word
#[kani::proof]
#[kani::unwind(5)]
pub fn c14_write_api_even() {
    let n: usize = kani::any();
    kani::assume(n == 0 || n == 2 || n == 4);
    write_api(n);
}

//@ harness: c14_write_api_odd
//@ property: C14
//@ tier: quick
//@ expect_fail: candidate finding - write_all panics "write() returned Ok(0)" for every odd payload length
//@ unwind: 5
//@ timeout: 900
//@ functions: SubDeviceEeprom::start_at; EepromRange::new; EepromRange::write; embedded_io_async::Write::write_all
//@ bounds: as c14_write_api_even for payload lengths 1, 3, 5 (values with an odd PACKED_LEN, e.g. u8 or [u8; 3])
//@ assumes: word address <= 0x7ff0; odd payload length
#[kani::proof]
#[kani::unwind(5)]
pub fn c14_write_api_odd() {
    let n: usize = kani::any();
    kani::assume(n == 1 || n == 3 || n == 5);
    write_api(n);
}

//@ harness: c14_write_all_odd_wide
//@ property: C14
//@ tier: quick
//@ expect_fail: candidate finding - write() returns more than buf.len() for an odd payload; write_all indexes out of range
//@ unwind: 5
//@ timeout: 900
//@ functions: EepromRange::new; EepromRange::write; embedded_io_async::Write::write_all
//@ bounds: write_all of 1, 3 or 5 symbolic bytes (odd lengths; even lengths hold in c14_write_api_even) into a window that is larger than the payload (8 words) at any word address <= 0x7ff0
//@ assumes: word address <= 0x7ff0; window of 8 words; odd payload length
#[kani::proof]
#[kani::unwind(5)]
pub fn c14_write_all_odd_wide() {
    fresh_mem();
    let w: u16 = kani::any();
    kani::assume(w <= 0x7ff0);
    let p: [u8; 5] = kani::any();
    let n: usize = kani::any();
    kani::assume(n == 1 || n == 3 || n == 5);
    let mut r = EepromRange::new(Mem::<8>(0), w, 8);
    let res = run_ready(r.write_all(&p[..n]));
    kani::cover!(res.is_ok());
    assert!(res.is_ok());
    let k = check_write_log(w, 8, n, &p);
    assert!(k == (n + 1) / 2);
}

/// Oracle for set_station_alias over the logging device: exactly two words written (alias at
/// word 4, CRC at word 7), every other word unchanged, CRC computed over the header as it reads
/// AFTER the change.
fn check_alias(res: Result<(), Error>, before: &[u8; 32], alias: u16) {
    kani::cover!(res.is_ok());
    assert!(res.is_ok());
    assert!(unsafe { WCNT } == 2);
    let a = alias.to_le_bytes();
    assert!(unsafe { WADDR[0] } == 4 && unsafe { WDATA[0][0] } == a[0] && unsafe { WDATA[0][1] } == a[1]);
    let mut hdr = [0u8; 14];
    let mut i = 0;
    while i < 14 {
        hdr[i] = unsafe { MEM[i] };
        i += 1;
    }
    let crc = STATION_ALIAS_CRC.checksum(&hdr);
    assert!(unsafe { WADDR[1] } == 7 && unsafe { WDATA[1][0] } == crc && unsafe { WDATA[1][1] } == 0);
    let mut w = 0;
    while w < 16 {
        let (lo, hi) = unsafe { (MEM[2 * w], MEM[2 * w + 1]) };
        if w == 4 {
            assert!(lo == a[0] && hi == a[1]);
        } else if w == 7 {
            assert!(lo == crc && hi == 0);
        } else {
            assert!(lo == before[2 * w] && hi == before[2 * w + 1]);
        }
        w += 1;
    }
}

//@ harness: c14_set_alias_16
//@ property: C14
//@ tier: thorough
//@ unwind: 17
//@ unwindset: 4Read4read:2; read_exact:2; 5Write5write:2; write_all:2
//@ timeout: 2400
//@ functions: SubDeviceEeprom::set_station_alias; SubDeviceEeprom::start_at; EepromRange::new; EepromRange::read; embedded_io_async::Read::read_exact; EepromRange::write; embedded_io_async::Write::write_all; STATION_ALIAS_CRC
//@ bounds: all 65536 alias values over a symbolic 16-word header (32 bytes); device model serving 16 bytes per access (one access for the 14-byte header); unwind 17 = 16-word comparison loop (CRC over 14 bytes needs 15); write loop 1 word + exit test. Measured 1086 s / 12.2 GB peak
//@ assumes: none (16-byte chunk size is a modelling choice, see file header)
//@ outside: 4- and 8-byte-chunk devices for the whole call (out of memory at 14 GB; header read on those: c14_header_read_4/8); CRC oracle is the crate's table implementation, tied to the bitwise definition by c14_crc_oracle; DeviceEeprom::write_word retry loop
#[kani::proof]
#[kani::unwind(17)]
pub fn c14_set_alias_16() {
    let before = fresh_mem();
    let alias: u16 = kani::any();
    let e = SubDeviceEeprom::new(Mem::<16>(0));
    let res = run_ready(e.set_station_alias(alias));
    check_alias(res, &before, alias);
}

/// First step of set_station_alias on real chunk sizes: `start_at(0, 14)` + `read_exact` of 14 bytes.
fn header_read<const N: usize>() {
    use embedded_io_async::Read;
    let before = fresh_mem();
    let e = SubDeviceEeprom::new(Mem::<N>(0));
    let mut chunk = [0u8; 14];
    let mut r = e.start_at(0x0000, 14);
    let res = run_ready(r.read_exact(&mut chunk));
    kani::cover!(res.is_ok());
    assert!(res.is_ok());
    let mut i = 0;
    while i < 14 {
        assert!(chunk[i] == before[i]);
        i += 1;
    }
    assert!(unsafe { WCNT } == 0);
}

//@ harness: c14_header_read_8
//@ property: C14, C12
//@ tier: quick
//@ unwind: 15
//@ unwindset: 4Read4read:3; read_exact:2
//@ timeout: 900
//@ functions: SubDeviceEeprom::start_at; EepromRange::new; EepromRange::read; embedded_io_async::Read::read_exact
//@ bounds: the header read of set_station_alias (word 0, 14 bytes) over a symbolic header, 8-byte chunks (2 accesses)
//@ outside: the rest of set_station_alias (c14_set_alias_16, c14_write_api_even)
#[kani::proof]
#[kani::unwind(15)]
pub fn c14_header_read_8() {
    header_read::<8>();
}

//@ harness: c14_header_read_4
//@ property: C14, C12
//@ tier: quick
//@ unwind: 15
//@ unwindset: 4Read4read:5; read_exact:2
//@ timeout: 900
//@ functions: SubDeviceEeprom::start_at; EepromRange::new; EepromRange::read; embedded_io_async::Read::read_exact
//@ bounds: as c14_header_read_8 with 4-byte chunks (4 accesses)
#[kani::proof]
#[kani::unwind(15)]
pub fn c14_header_read_4() {
    header_read::<4>();
}

// Odd payloads with CONCRETE lengths. Kani/CBMC mis-models a copy of symbolic size into an array
// that lives in coroutine state (bytes after the copied prefix read back as 0; reproduction in
// /verif/tools/kani_memcpy_repro): with a symbolic payload length c14_write would therefore not see
// a stale high byte in the padded last word if `write` were rewritten around a scratch word kept
// across the await (seed S25). With the length concrete (and `write` the top-level future, so the
// constant survives) the model is exact.
fn write_odd<const LEN: usize>() {
    fresh_mem();
    let s: u16 = kani::any();
    let l: u16 = kani::any();
    kani::assume(u32::from(s) + u32::from(l) <= 0x7fff);
    let p: [u8; 5] = kani::any();
    let mut r = EepromRange::new(Mem::<8>(0), s, l);
    let res = run_ready(r.write(&p[..LEN]));
    kani::cover!(unsafe { WCNT } == (LEN + 1) / 2);
    let k = check_write_log(s, l, LEN, &p);
    assert!(matches!(res, Ok(w) if w.min(LEN) == (2 * k).min(LEN)));
}

//@ harness: c14_write_odd_concrete
//@ property: C14
//@ tier: quick
//@ unwind: 5
//@ timeout: 900
//@ functions: EepromRange::new; EepromRange::write
//@ bounds: payload lengths 1, 3 and 5 (concrete, one instance each) with symbolic bytes, any start word and window length with start+len <= 0x7fff
//@ assumes: start_word + len_words <= 0x7fff
#[kani::proof]
#[kani::unwind(5)]
pub fn c14_write_odd_concrete() {
    match kani::any::<u8>() % 3 {
        0 => write_odd::<1>(),
        1 => write_odd::<3>(),
        _ => write_odd::<5>(),
    }
}

// C02: a frame buffer never has two parties inside it at once; lifecycle order.
// C03: slots are always returned.
//
// Sequential model: Kani has no threads and treats atomics as sequential operations. The access
// monitor is the set of live handles the harness holds (a handle = the right to touch the buffer);
// the representation invariant ties each slot state to the handle set. One action from an
// ARBITRARY state (inductive step) covers histories of any length; weak-memory reorderings are
// outside every claim.
use crate::{
    Command, PduStorage,
    error::{Error, PduError},
    pdu_loop::{VERIF_FIRST_PDU_EMPTY as FIRST_PDU_EMPTY, VerifFrameState as FrameState},
    timer_factory::{LabeledTimeout, TimeoutKind},
    verif::support::*,
};
use core::{future::Future, pin::pin, task::Context, time::Duration};

const FRAME: usize = 40;

pub fn pdu_timeout() -> LabeledTimeout {
    LabeledTimeout { duration: Duration::from_micros(1000), kind: TimeoutKind::Pdu }
}

fn any_slot(idx: u8) -> Slot {
    let first_pdu: u16 = kani::any();
    kani::assume(first_pdu <= 0xff || first_pdu == FIRST_PDU_EMPTY);
    let payload_len: usize = kani::any();
    kani::assume(payload_len <= FRAME - 16);
    Slot { state: any_state(), first_pdu, payload_len, slot_index: idx }
}

fn alloc_step<const N: usize>(storage: &'static PduStorage<N, FRAME>) {
    let (_tx, _rx, pdu_loop) = storage.try_split().unwrap();
    let mut pre = [any_slot(0); N];
    let mut any_free = false;
    let mut i = 0;
    while i < N {
        pre[i] = any_slot(i as u8);
        forge(&pdu_loop, i, pre[i]);
        any_free |= pre[i].state == FrameState::None;
        i += 1;
    }
    // arbitrary position of the round-robin cursor (incl. just before the u8 wrap) and of the index counter
    pdu_loop.verif_storage_ref().verif_set_cursors(kani::any(), kani::any());

    let res = pdu_loop.alloc_frame();
    kani::cover!(res.is_ok());
    kani::cover!(res.is_err());

    // allocation fails only when every slot is genuinely held, and succeeds whenever one is free
    assert!(res.is_ok() == any_free);
    match &res {
        Ok(f) => {
            let k = usize::from(f.storage_slot_index());
            assert!(k < N);
            assert!(pre[k].state == FrameState::None); // never handed out while held by someone else
            let post = slot(&pdu_loop, k);
            assert!(post.state == FrameState::Created && post.payload_len == 0 && post.first_pdu == FIRST_PDU_EMPTY);
            assert!(usize::from(post.slot_index) == k);
            // fresh frame: Ethernet header set, datagram area zeroed (probe one symbolic byte)
            let p: usize = kani::any();
            kani::assume(p >= 14 && p < FRAME);
            assert!(slot_byte(&pdu_loop, k, p) == 0);
            assert!(slot_byte(&pdu_loop, k, 12) == 0x88 && slot_byte(&pdu_loop, k, 13) == 0xa4);
            let mut i = 0;
            while i < N {
                if i != k {
                    assert!(slot(&pdu_loop, i) == pre[i]);
                }
                i += 1;
            }
        }
        Err(e) => {
            assert!(*e == Error::Pdu(PduError::SwapState));
            let mut i = 0;
            while i < N {
                assert!(slot(&pdu_loop, i) == pre[i]);
                i += 1;
            }
        }
    }
    // a frame claimed but never marked sendable is released when dropped
    if let Ok(f) = res {
        let k = usize::from(f.storage_slot_index());
        drop(f);
        assert!(slot(&pdu_loop, k).state == FrameState::None);
    }
}

//@ harness: c02_alloc_step_1
//@ property: C02, C03
//@ tier: quick
//@ unwind: 44
//@ functions: PduLoop::alloc_frame; PduStorageRef::alloc_frame; CreatedFrame::claim_created; FrameElement::claim_created; FrameElement::swap_state; FrameBox::init; CreatedFrame::drop
//@ bounds: 1 slot (40-byte frame) in every state; every value of the u8 allocation cursor and index counter; one allocation + drop
#[kani::proof]
#[kani::unwind(44)]
pub fn c02_alloc_step_1() {
    static STORAGE: PduStorage<1, FRAME> = PduStorage::new();
    alloc_step::<1>(&STORAGE);
}

//@ harness: c02_alloc_step_2
//@ property: C02, C03, C20
//@ tier: quick
//@ unwind: 44
//@ functions: PduLoop::alloc_frame; PduStorageRef::alloc_frame; CreatedFrame::claim_created; FrameBox::init; CreatedFrame::drop
//@ bounds: 2 slots in every combination of the 8 states; every cursor value; 2N = 4 claim attempts
#[kani::proof]
#[kani::unwind(44)]
pub fn c02_alloc_step_2() {
    static STORAGE: PduStorage<2, FRAME> = PduStorage::new();
    alloc_step::<2>(&STORAGE);
}

//@ harness: c02_alloc_step_4
//@ property: C02, C03
//@ tier: thorough
//@ unwind: 44
//@ timeout: 1200
//@ functions: PduLoop::alloc_frame; PduStorageRef::alloc_frame; CreatedFrame::claim_created; FrameBox::init
//@ bounds: 4 slots in every combination of states; every cursor value incl. the 255->0 wrap; 8 claim attempts
#[kani::proof]
#[kani::unwind(44)]
pub fn c02_alloc_step_4() {
    static STORAGE: PduStorage<4, FRAME> = PduStorage::new();
    alloc_step::<4>(&STORAGE);
}

fn tx_step<const N: usize>(storage: &'static PduStorage<N, FRAME>) {
    let (mut tx, _rx, pdu_loop) = storage.try_split().unwrap();
    let mut pre = [any_slot(0); N];
    let mut first_sendable: Option<usize> = None;
    let mut i = 0;
    while i < N {
        pre[i] = any_slot(i as u8);
        forge(&pdu_loop, i, pre[i]);
        if first_sendable.is_none() && pre[i].state == FrameState::Sendable {
            first_sendable = Some(i);
        }
        i += 1;
    }
    let f = tx.next_sendable_frame();
    kani::cover!(f.is_some());
    kani::cover!(f.is_none());
    assert!(f.is_some() == first_sendable.is_some());
    let mut i = 0;
    while i < N {
        let post = slot(&pdu_loop, i);
        if Some(i) == first_sendable {
            assert!(post.state == FrameState::Sending);
            assert!(post.first_pdu == pre[i].first_pdu && post.payload_len == pre[i].payload_len);
        } else {
            assert!(post == pre[i]);
        }
        i += 1;
    }
    // a second claim while the first is outstanding never returns the same slot
    let g = tx.next_sendable_frame();
    if let (Some(a), Some(b)) = (&f, &g) {
        assert!(a.storage_slot_index() != b.storage_slot_index());
    }
    drop(g);
    if let Some(f) = f {
        let k = first_sendable.unwrap();
        let expect_len = 16 + pre[k].payload_len;
        let outcome: u8 = kani::any();
        let res = f.send_blocking(|bytes| {
            // TX sees header + used datagram area only
            assert!(bytes.len() == expect_len);
            match outcome {
                0 => Ok(bytes.len()),
                1 => Ok(bytes.len() - 1),
                _ => Err(Error::SendFrame),
            }
        });
        let post = slot(&pdu_loop, k);
        kani::cover!(res.is_ok());
        kani::cover!(res.is_err());
        if outcome == 0 {
            assert!(res == Ok(expect_len) && post.state == FrameState::Sent);
        } else {
            // send failure: claim released so the frame can be sent again
            assert!(res.is_err() && post.state == FrameState::Sendable);
            if outcome == 1 {
                assert!(res == Err(Error::PartialSend { len: expect_len, sent: expect_len - 1 }));
            }
        }
    }
}

//@ harness: c02_tx_step_2
//@ property: C02, C03
//@ tier: quick
//@ unwind: 6
//@ functions: PduTx::next_sendable_frame; SendableFrame::claim_sending; FrameElement::claim_sending; SendableFrame::send_blocking; SendableFrame::as_bytes; SendableFrame::mark_sent; SendableFrame::release_sending_claim
//@ bounds: 2 slots in every combination of states; send outcome symbolic (ok / partial write / error)
#[kani::proof]
#[kani::unwind(6)]
pub fn c02_tx_step_2() {
    static STORAGE: PduStorage<2, FRAME> = PduStorage::new();
    tx_step::<2>(&STORAGE);
}

// One full lifecycle on one slot with symbolic fault choices, asserting the documented order after
// every step and that the slot is allocatable again once every handle is gone (C03).
//@ harness: c02_lifecycle_1
//@ property: C02, C03
//@ tier: thorough
//@ unwind: 8
//@ unwindset: c02_lifecycle_1:34
//@ timeout: 1200
//@ functions: PduLoop::alloc_frame; CreatedFrame::push_pdu; CreatedFrame::mark_sendable; ReceiveFrameFut::poll; ReceiveFrameFut::drop; PduTx::next_sendable_frame; SendableFrame::send_blocking; PduRx::receive_frame; ReceivedFrame::first_pdu; ReceivedFrame::drop
//@ bounds: 1 slot, 1 request (FPRD, 2 data bytes, symbolic address), symbolic faults: send error/partial (then resend), garbage (wrong index) response before the genuine one, duplicate response after it, future dropped at any of 5 points; virtual clock never reaches the deadline
//@ stubs: embassy_time_driver::now -> virtual clock (harness static); embassy_time_driver::schedule_wake -> no-op
//@ outside: deadline expiry (C06); pre-emption inside library calls
#[kani::proof]
#[kani::unwind(44)]
#[kani::stub(embassy_time_driver::now, crate::verif::support::vnow)]
#[kani::stub(embassy_time_driver::schedule_wake, crate::verif::support::vschedule_wake)]
pub fn c02_lifecycle_1() {
    static STORAGE: PduStorage<1, FRAME> = PduStorage::new();
    let (mut tx, mut rx, pdu_loop) = STORAGE.try_split().unwrap();
    let drop_at: u8 = kani::any(); // 0..=4: drop the future at that point; >4: never
    let w = noop_waker();
    let mut cx = Context::from_waker(&w);

    assert!(slot(&pdu_loop, 0).state == FrameState::None);
    let mut frame = pdu_loop.alloc_frame().unwrap();
    assert!(slot(&pdu_loop, 0).state == FrameState::Created);
    // a second request cannot get the buffer while the first owns it
    assert!(pdu_loop.alloc_frame().is_err());
    let adr: u16 = kani::any();
    let handle = frame.push_pdu(Command::fprd(adr, 0x0130).into(), (), Some(2)).unwrap();
    assert!(slot(&pdu_loop, 0).state == FrameState::Created);
    let fut = frame.mark_sendable(&pdu_loop, pdu_timeout(), 0);
    assert!(slot(&pdu_loop, 0).state == FrameState::Sendable);
    let mut fut = pin!(Some(fut));
    macro_rules! maybe_drop {
        ($n:expr) => {
            if drop_at == $n {
                fut.set(None);
                // abandoned outside the TX/RX windows: slot is free again at once
                assert!(slot(&pdu_loop, 0).state == FrameState::None);
                assert!(pdu_loop.alloc_frame().is_ok());
                return;
            }
        };
    }
    maybe_drop!(0);
    assert!(fut.as_mut().as_pin_mut().unwrap().poll(&mut cx).is_pending());
    assert!(slot(&pdu_loop, 0).state == FrameState::Sendable);
    assert!(pdu_loop.alloc_frame().is_err());

    // transmit, possibly failing once
    let mut wire = [0u8; 32];
    let mut wire_len = 0usize;
    let fail: u8 = kani::any();
    if fail != 0 {
        let sf = tx.next_sendable_frame().unwrap();
        assert!(slot(&pdu_loop, 0).state == FrameState::Sending);
        let r = sf.send_blocking(|b| if fail == 1 { Ok(b.len() - 1) } else { Err(Error::SendFrame) });
        assert!(r.is_err());
        assert!(slot(&pdu_loop, 0).state == FrameState::Sendable);
    }
    let sf = tx.next_sendable_frame().unwrap();
    assert!(slot(&pdu_loop, 0).state == FrameState::Sending);
    assert!(tx.next_sendable_frame().is_none());
    let r = sf.send_blocking(|b| {
        wire_len = b.len();
        let mut i = 0;
        while i < b.len() {
            wire[i] = b[i];
            i += 1;
        }
        Ok(b.len())
    });
    assert!(r == Ok(30) && wire_len == 30);
    assert!(slot(&pdu_loop, 0).state == FrameState::Sent);
    maybe_drop!(1);
    assert!(fut.as_mut().as_pin_mut().unwrap().poll(&mut cx).is_pending());
    assert!(slot(&pdu_loop, 0).state == FrameState::Sent);

    // the network's answer: same frame, source MAC changed by the first SubDevice, data + wkc filled in
    wire[6] = 0x12;
    let d0: u8 = kani::any();
    let d1: u8 = kani::any();
    let wkc: u16 = kani::any();
    wire[26] = d0;
    wire[27] = d1;
    wire[28] = wkc.to_le_bytes()[0];
    wire[29] = wkc.to_le_bytes()[1];
    // a stranger first (same frame, other index): rejected, nothing changes
    if kani::any() {
        let mut g = wire;
        g[17] = g[17].wrapping_add(1);
        let pre = slot(&pdu_loop, 0);
        assert!(rx.receive_frame(&g[..30]).is_err());
        assert!(slot(&pdu_loop, 0) == pre);
    }
    maybe_drop!(2);
    assert!(rx.receive_frame(&wire[..30]) == Ok(crate::ReceiveAction::Processed));
    assert!(slot(&pdu_loop, 0).state == FrameState::RxDone);
    // a duplicate of the response is refused and does not disturb the received data
    if kani::any() {
        let mut g = wire;
        g[26] = !g[26];
        assert!(rx.receive_frame(&g[..30]).is_err());
        assert!(slot(&pdu_loop, 0).state == FrameState::RxDone);
    }
    assert!(pdu_loop.alloc_frame().is_err());
    maybe_drop!(3);
    let rf = match fut.as_mut().as_pin_mut().unwrap().poll(&mut cx) {
        core::task::Poll::Ready(Ok(rf)) => rf,
        _ => panic!("response delivered but future not ready"),
    };
    fut.set(None);
    assert!(slot(&pdu_loop, 0).state == FrameState::RxProcessing);
    assert!(pdu_loop.alloc_frame().is_err());
    kani::cover!(drop_at > 4 && fail == 1);
    if drop_at == 4 {
        drop(rf);
    } else {
        let pdu = rf.first_pdu(handle).unwrap();
        assert!(pdu.len() == 2 && pdu[0] == d0 && pdu[1] == d1 && pdu.working_counter == wkc);
    }
    // every handle is gone: the slot is free and carries no stale index
    let s = slot(&pdu_loop, 0);
    assert!(s.state == FrameState::None && s.first_pdu == FIRST_PDU_EMPTY);
    assert!(pdu_loop.alloc_frame().is_ok());
}

// C12: EEPROM reads return exactly the stored bytes and parse to what they encode.
//
// Image model: the whole 64 KiB byte address space of the SII EEPROM is given a content function
// `byte_at(a) = IMG[a % 64] ^ (a / 64)` with IMG symbolic. Any window of <= 64 consecutive bytes of
// that image is fully arbitrary (64 independent symbolic bytes), and two addresses 64*k apart differ
// by a known constant, so a read from a wrong place is visible for every offset != 0 mod 16 KiB. All
// reads below touch < 32 consecutive bytes, i.e. for them the model is as general as "any image".
// `Img<N>` serves N bytes (4 or 8) per access starting at the requested WORD address, like
// `DeviceEeprom::read_chunk` (the SII register transport itself is not part of these harnesses).
//
// Coverage map
//   range exactness   c12_read_exact_8/4 (one read from EVERY cursor state), c12_range_api_8/4
//                     (new + skip_ahead_bytes + read), c12_read_byte_exact, c12_read_raw_even/odd and
//                     c12_read_typed_u8 (call shapes of SubDevice::eeprom_read_raw / eeprom_read).
//   whole queries     c12_size, c12_station_alias (2-byte fields; ~190 s / 7.7 GB each). Every other
//                     query (identity, mailbox_config, general, sync_managers, fmmus, fmmu_mappings,
//                     pdos, find_string/device_name/description) keeps a >= 10-byte buffer in a nested
//                     coroutine: CBMC runs out of memory at 14 GB (measured on the same shape in
//                     c14.rs). They are covered compositionally: category search (c13_walk_*), range
//                     read exactness from every cursor state (here), item decoders (c12_decode_*).
//   NOT covered       the glue inside those queries: fixed block addresses (0x08, 0x18), PDO entry
//                     skipping and bit length summation in pdos() (sum cannot overflow: 255 x 255 <
//                     2^16), string index walk and NUL / non-ASCII post-processing in find_string.
//
// Candidate finding witnessed here (F9): c12_read_raw_odd / c12_read_typed_u8 FAIL on the current
// tree: `start_at(word, len_bytes)` builds the window from `len_bytes / 2` words, so an odd length
// loses its last byte.
use crate::{
    eeprom::{EepromDataProvider, EepromRange},
    error::Error,
    subdevice::VerifSubDeviceEeprom as SubDeviceEeprom,
    verif::support::*,
};
use embedded_io_async::Read;

pub static mut IMG: [u8; 64] = [0; 64];
/// Highest byte address (exclusive) handed out by the provider so far.
pub static mut MAX_SERVED: u32 = 0;
pub static mut READS: u32 = 0;

pub fn byte_at(a: u32) -> u8 {
    unsafe { IMG[(a & 63) as usize] ^ ((a >> 6) as u8) }
}

#[derive(Clone)]
pub struct Img<const N: usize>(pub u8);

pub struct Chunk<const N: usize> {
    pub buf: [u8; N],
}
impl<const N: usize> core::ops::Deref for Chunk<N> {
    type Target = [u8];
    fn deref(&self) -> &[u8] {
        &self.buf
    }
}

impl<const N: usize> EepromDataProvider for Img<N> {
    async fn read_chunk(
        &mut self,
        start_word: u16,
    ) -> Result<impl core::ops::Deref<Target = [u8]>, Error> {
        let base = u32::from(start_word) * 2;
        let mut buf = [0u8; N];
        let mut i = 0;
        while i < N {
            buf[i] = byte_at(base + i as u32);
            i += 1;
        }
        unsafe {
            READS += 1;
            if base + N as u32 > MAX_SERVED {
                MAX_SERVED = base + N as u32;
            }
        }
        Ok(Chunk { buf })
    }
    async fn write_word(&mut self, _start_word: u16, _data: [u8; 2]) -> Result<(), Error> {
        Ok(())
    }
    async fn clear_errors(&self) -> Result<(), Error> {
        Ok(())
    }
}

pub fn fresh_image() {
    unsafe {
        IMG = kani::any();
        MAX_SERVED = 0;
        READS = 0;
    }
}

/// Oracle shared by the range-read harnesses: after `read` into `buf[..n]` (buf pre-filled with
/// `before`) from cursor `pos` in a window ending at `end`, exactly `min(n, end-pos)` image bytes
/// starting at `pos` are delivered, everything else is untouched, the cursor advanced by that much.
fn check_read<const N: usize>(
    res: Result<usize, Error>,
    pos: u16,
    end: u16,
    n: usize,
    buf: &[u8; 9],
    before: &[u8; 9],
    after: (u16, u16),
) {
    let want = n.min(usize::from(end - pos));
    kani::cover!(matches!(res, Ok(9)));
    kani::cover!(matches!(res, Ok(0)));
    kani::cover!(matches!(res, Ok(k) if k > 0 && k < n));
    kani::cover!(pos % 2 == 1 && matches!(res, Ok(9)));
    // completeness + never more than the window
    assert!(matches!(res, Ok(k) if k == want));
    let mut i = 0;
    while i < 9 {
        if i < want {
            assert!(buf[i] == byte_at(u32::from(pos) + i as u32));
        } else {
            assert!(buf[i] == before[i]);
        }
        i += 1;
    }
    assert!(usize::from(after.0) == usize::from(pos) + want && after.1 == end);
    // the device is never asked for a chunk that starts at or after the window end
    if want > 0 {
        assert!(unsafe { MAX_SERVED } < u32::from(pos) + want as u32 + N as u32);
    } else {
        assert!(unsafe { READS } == 0);
    }
}

//@ harness: c12_read_exact_8
//@ property: C12
//@ tier: quick
//@ unwind: 10
//@ unwindset: 4Read4read:3
//@ timeout: 900
//@ functions: EepromRange::read
//@ bounds: every cursor state (byte_pos <= end, any u16: odd and even positions, odd and even window ends), destination length 0..=9 (symbolic), 8-byte chunks (<= 2 device accesses: unwind 3 for the read loop; 10 = 9-byte compare/fill loops of the harness), image bytes symbolic
//@ assumes: byte_pos <= end (invariant of EepromRange, proved for new/skip_ahead_bytes in c13_range_new_total)
//@ outside: destinations longer than 9 bytes (same loop, more iterations); the SII register transport (DeviceEeprom::read_chunk)
#[kani::proof]
#[kani::unwind(10)]
pub fn c12_read_exact_8() {
    fresh_image();
    let pos: u16 = kani::any();
    let end: u16 = kani::any();
    kani::assume(pos <= end);
    let mut r = EepromRange::verif_from_state(Img::<8>(0), pos, end);
    let before: [u8; 9] = kani::any();
    let mut buf = before;
    let n: usize = kani::any();
    kani::assume(n <= 9);
    let res = run_ready(r.read(&mut buf[..n]));
    check_read::<8>(res, pos, end, n, &buf, &before, r.verif_state());
}

//@ harness: c12_read_exact_4
//@ property: C12
//@ tier: quick
//@ unwind: 10
//@ unwindset: 4Read4read:4
//@ timeout: 1200
//@ functions: EepromRange::read
//@ bounds: as c12_read_exact_8 with 4-byte chunks (<= 3 device accesses for 9 bytes: unwind 4 for the read loop)
//@ assumes: byte_pos <= end
//@ outside: destinations longer than 9 bytes
#[kani::proof]
#[kani::unwind(10)]
pub fn c12_read_exact_4() {
    fresh_image();
    let pos: u16 = kani::any();
    let end: u16 = kani::any();
    kani::assume(pos <= end);
    let mut r = EepromRange::verif_from_state(Img::<4>(0), pos, end);
    let before: [u8; 9] = kani::any();
    let mut buf = before;
    let n: usize = kani::any();
    kani::assume(n <= 9);
    let res = run_ready(r.read(&mut buf[..n]));
    check_read::<4>(res, pos, end, n, &buf, &before, r.verif_state());
}

/// API-level oracle: window requested as (start_word, len_words), optional skip, then one read.
fn range_api<const N: usize>() {
    fresh_image();
    let s: u16 = kani::any();
    let l: u16 = kani::any();
    let mut r = EepromRange::new(Img::<N>(0), s, l);
    // requested byte range [lo, hi), clamped to the 16-bit byte address space
    let lo = (u32::from(s) * 2).min(0xffff);
    let hi = (lo + u32::from(l) * 2).min(0xffff);
    let mut pos = lo;
    if kani::any() {
        let k: u16 = kani::any();
        let sk = r.skip_ahead_bytes(k);
        if lo + u32::from(k) < hi {
            assert!(sk.is_ok());
            pos = lo + u32::from(k);
        } else {
            assert!(sk.is_err());
        }
    }
    let before: [u8; 9] = kani::any();
    let mut buf = before;
    let n: usize = kani::any();
    kani::assume(n <= 9);
    let res = run_ready(r.read(&mut buf[..n]));
    check_read::<N>(res, pos as u16, hi as u16, n, &buf, &before, r.verif_state());
}

//@ harness: c12_range_api_8
//@ property: C12
//@ tier: quick
//@ unwind: 10
//@ unwindset: 4Read4read:3
//@ timeout: 900
//@ functions: EepromRange::new; EepromRange::skip_ahead_bytes; EepromRange::read
//@ bounds: EepromRange::new for every (start_word, len_words) in u16^2, optionally followed by skip_ahead_bytes(k) for every k in u16 (odd and even positions), then one read into a destination of 0..=9 bytes; 8-byte chunks; window clamped to the 16-bit byte address space as the code documents
//@ outside: destinations longer than 9 bytes; sequences of several reads (each read starts from a state covered by c12_read_exact_8)
#[kani::proof]
#[kani::unwind(10)]
pub fn c12_range_api_8() {
    range_api::<8>();
}

//@ harness: c12_range_api_4
//@ property: C12
//@ tier: thorough
//@ unwind: 10
//@ unwindset: 4Read4read:4
//@ timeout: 1200
//@ functions: EepromRange::new; EepromRange::skip_ahead_bytes; EepromRange::read
//@ bounds: as c12_range_api_8 with 4-byte chunks
//@ outside: destinations longer than 9 bytes
#[kani::proof]
#[kani::unwind(10)]
pub fn c12_range_api_4() {
    range_api::<4>();
}

fn read_byte_exact<const N: usize>() {
    fresh_image();
    let pos: u16 = kani::any();
    let end: u16 = kani::any();
    kani::assume(pos <= end);
    let mut r = EepromRange::verif_from_state(Img::<N>(0), pos, end);
    let res = run_ready(r.read_byte());
    let (pos2, end2) = r.verif_state();
    kani::cover!(res.is_ok() && pos % 2 == 1);
    kani::cover!(res.is_ok() && pos % 2 == 0);
    kani::cover!(res.is_err());
    assert!(end2 == end);
    if pos < end {
        assert!(matches!(res, Ok(b) if b == byte_at(u32::from(pos))));
        assert!(pos2 == pos + 1);
        assert!(unsafe { READS } == 1 && unsafe { MAX_SERVED } <= u32::from(pos) + N as u32);
    } else {
        // nothing beyond the window is read or returned
        assert!(res.is_err() && pos2 == pos && unsafe { READS } == 0);
    }
}

//@ harness: c12_read_byte_exact
//@ property: C12
//@ tier: quick
//@ unwind: 9
//@ functions: EepromRange::read_byte
//@ bounds: every cursor state (byte_pos <= end, any u16), 4- and 8-byte chunks; unwind 9 = provider fill loop of 8 bytes
//@ assumes: byte_pos <= end
#[kani::proof]
#[kani::unwind(9)]
pub fn c12_read_byte_exact() {
    if kani::any() {
        read_byte_exact::<8>();
    } else {
        read_byte_exact::<4>();
    }
}

/// Shape of `SubDevice::eeprom_read_raw(start_word, buf)`: `start_at(start_word, buf.len()).read(buf)`.
fn read_raw(n: usize) {
    fresh_image();
    let w: u16 = kani::any();
    kani::assume(w <= 0x7ff0);
    let e = SubDeviceEeprom::new(Img::<8>(0));
    let before: [u8; 9] = kani::any();
    let mut buf = before;
    let mut r = e.start_at(w, n as u16);
    let res = run_ready(r.read(&mut buf[..n]));
    kani::cover!(matches!(res, Ok(k) if k == n));
    // "reading any range returns exactly the bytes stored in that range": all n requested bytes
    assert!(matches!(res, Ok(k) if k == n));
    let mut i = 0;
    while i < 9 {
        if i < n {
            assert!(buf[i] == byte_at(u32::from(w) * 2 + i as u32));
        } else {
            assert!(buf[i] == before[i]);
        }
        i += 1;
    }
}

//@ harness: c12_read_raw_even
//@ property: C12
//@ tier: quick
//@ unwind: 10
//@ unwindset: 4Read4read:3
//@ timeout: 900
//@ functions: SubDeviceEeprom::start_at; EepromRange::new; EepromRange::read
//@ bounds: the call shape of SubDevice::eeprom_read_raw for even buffer lengths 0,2,4,6,8 (symbolic), any start word <= 0x7ff0, 8-byte chunks
//@ assumes: start word <= 0x7ff0 (windows clamped at the top of the address space: c12_range_api_8); even length (odd: c12_read_raw_odd)
//@ outside: buffers longer than 9 bytes; the PDU transport below DeviceEeprom
#[kani::proof]
#[kani::unwind(10)]
pub fn c12_read_raw_even() {
    let n: usize = kani::any();
    kani::assume(n <= 8 && n % 2 == 0);
    read_raw(n);
}

//@ harness: c12_read_raw_odd
//@ property: C12
//@ tier: quick
//@ expect_fail: candidate finding F9 - eeprom_read_raw with an odd-length buffer returns len-1 bytes
//@ unwind: 10
//@ unwindset: 4Read4read:3
//@ timeout: 900
//@ functions: SubDeviceEeprom::start_at; EepromRange::new; EepromRange::read
//@ bounds: as c12_read_raw_even for odd buffer lengths 1,3,5,7,9
//@ assumes: start word <= 0x7ff0; odd length
#[kani::proof]
#[kani::unwind(10)]
pub fn c12_read_raw_odd() {
    let n: usize = kani::any();
    kani::assume(n <= 9 && n % 2 == 1);
    read_raw(n);
}

//@ harness: c12_read_typed_u8
//@ property: C12
//@ tier: quick
//@ expect_fail: candidate finding F9 - eeprom_read::<u8> always fails with SectionOverrun
//@ unwind: 9
//@ unwindset: 4Read4read:2; read_exact:2
//@ timeout: 900
//@ functions: SubDeviceEeprom::start_at; EepromRange::new; EepromRange::read; embedded_io_async::Read::read_exact
//@ bounds: the call shape of SubDevice::eeprom_read::<u8> (PACKED_LEN 1): start_at(word, 1) + read_exact of 1 byte, any start word <= 0x7ff0
//@ assumes: start word <= 0x7ff0
#[kani::proof]
#[kani::unwind(9)]
pub fn c12_read_typed_u8() {
    fresh_image();
    let w: u16 = kani::any();
    kani::assume(w <= 0x7ff0);
    let e = SubDeviceEeprom::new(Img::<8>(0));
    let mut buf = [0u8; 1];
    let mut r = e.start_at(w, 1);
    let res = run_ready(r.read_exact(&mut buf));
    kani::cover!(res.is_ok());
    assert!(res.is_ok());
    assert!(buf[0] == byte_at(u32::from(w) * 2));
}

fn le16(a: u32) -> u16 {
    u16::from_le_bytes([byte_at(a), byte_at(a + 1)])
}

//@ harness: c12_size
//@ property: C12
//@ tier: thorough
//@ unwind: 9
//@ unwindset: 4Read4read:2; read_exact:2
//@ timeout: 900
//@ functions: SubDeviceEeprom::size; SubDeviceEeprom::start_at; EepromRange::new; EepromRange::read; embedded_io_async::Read::read_exact
//@ bounds: whole query size() over the symbolic image (word 0x3e), 8-byte chunks, every 16-bit size word. Measured 195 s / 7.7 GB peak
//@ outside: 4-byte chunks for this query (range exactness for 4-byte chunks: c12_read_exact_4)
#[kani::proof]
#[kani::unwind(9)]
pub fn c12_size() {
    fresh_image();
    let e = SubDeviceEeprom::new(Img::<8>(0));
    let r = run_ready(e.size());
    kani::cover!(matches!(r, Ok(128)));
    kani::cover!(matches!(r, Ok(8388608)));
    // (word + 1) Kibit = (word + 1) * 128 bytes as a mathematical integer
    assert!(matches!(r, Ok(sz) if sz as u64 == (u64::from(le16(0x7c)) + 1) * 128));
}

//@ harness: c12_station_alias
//@ property: C12, C14
//@ tier: thorough
//@ unwind: 9
//@ unwindset: 4Read4read:2; read_exact:2
//@ timeout: 900
//@ functions: SubDeviceEeprom::station_alias; SubDeviceEeprom::start_at; EepromRange::new; EepromRange::read; embedded_io_async::Read::read_exact
//@ bounds: whole query station_alias() over the symbolic image (word 4), 8-byte chunks, every alias value. Measured 181 s / 7.7 GB peak
//@ outside: 4-byte chunks for this query
#[kani::proof]
#[kani::unwind(9)]
pub fn c12_station_alias() {
    fresh_image();
    let e = SubDeviceEeprom::new(Img::<8>(0));
    let r = run_ready(e.station_alias());
    kani::cover!(matches!(r, Ok(0xabcd)));
    assert!(matches!(r, Ok(a) if a == le16(8)));
}

// ---- item decoders against reference decoders written from the field layouts -------------------
// (ETG1000.6 Tables 18-23 / ETG2010: little-endian fields at fixed byte offsets.) For every byte
// string that is a well-formed encoding (enumerations hold a defined value, reserved flag bits are
// zero) the derived `unpack_from_slice` must succeed and deliver exactly the encoded field values.
// Totality on ill-formed encodings is C13 (c13_unpack_total).

fn r16(b: &[u8], o: usize) -> u16 {
    (b[o] as u16) | ((b[o + 1] as u16) << 8)
}
fn r32(b: &[u8], o: usize) -> u32 {
    (b[o] as u32) | ((b[o + 1] as u32) << 8) | ((b[o + 2] as u32) << 16) | ((b[o + 3] as u32) << 24)
}

//@ harness: c12_decode_fixed
//@ property: C12
//@ tier: quick
//@ unwind: 20
//@ functions: SubDeviceIdentity::unpack_from_slice; DefaultMailbox::unpack_from_slice; SiiGeneral::unpack_from_slice; PortStatuses::unpack_from_slice
//@ bounds: every 16-byte identity block, every 10-byte mailbox block, every 18-byte General category head (complete for the decoders)
//@ assumes: none; well-formedness (defined flag bits, defined port codes) is a condition of the assertions, not an assume
//@ outside: reading the blocks from the device (range exactness: c12_read_exact_*; category search: c13_walk_*)
#[kani::proof]
#[kani::unwind(20)]
pub fn c12_decode_fixed() {
    use crate::eeprom::types::*;
    use ethercrab_wire::EtherCrabWireRead;
    let b: [u8; 18] = kani::any();

    // identity: words 0x08..0x10 = vendor, product, revision, serial (u32 LE each)
    let id = crate::subdevice::SubDeviceIdentity::unpack_from_slice(&b[..16]);
    kani::cover!(id.is_ok());
    assert!(matches!(id, Ok(i) if i.vendor_id == r32(&b, 0) && i.product_id == r32(&b, 4)
        && i.revision == r32(&b, 8) && i.serial == r32(&b, 12)));

    // standard mailbox: words 0x18..0x1d = rx offset, rx size, tx offset, tx size, protocols
    let mb = DefaultMailbox::unpack_from_slice(&b[..10]);
    let mb_wf = b[8] & 0xc0 == 0;
    kani::cover!(mb.is_ok());
    if mb_wf {
        assert!(matches!(mb, Ok(m) if m.subdevice_receive_offset == r16(&b, 0)
            && m.subdevice_receive_size == r16(&b, 2)
            && m.subdevice_send_offset == r16(&b, 4)
            && m.subdevice_send_size == r16(&b, 6)
            && m.supported_protocols.bits() == b[8]));
    }

    // General category (ETG1000.6 Table 21)
    let g = SiiGeneral::unpack_from_slice(&b[..18]);
    let ports_wf = (b[14] & 0x0f) <= 4 && (b[14] >> 4) <= 4 && (b[15] & 0x0f) <= 4 && (b[15] >> 4) <= 4;
    let g_wf = b[5] & 0xc0 == 0 && b[11] & 0xe0 == 0 && ports_wf;
    kani::cover!(g.is_ok() && g_wf);
    if g_wf {
        assert!(matches!(g, Ok(ref g) if g.group_string_idx == b[0]
            && g.image_string_idx == b[1]
            && g.order_string_idx == b[2]
            && g.name_string_idx == b[3]
            && g.coe_details.bits() == b[5]
            && g.foe_enabled == (b[6] != 0)
            && g.eoe_enabled == (b[7] != 0)
            && g.flags.bits() == b[11]
            && g.ebus_current == r16(&b, 12) as i16
            && g.ports.0[0] as u8 == b[14] & 0x0f
            && g.ports.0[1] as u8 == b[14] >> 4
            && g.ports.0[2] as u8 == b[15] & 0x0f
            && g.ports.0[3] as u8 == b[15] >> 4
            && g.physical_memory_addr == r16(&b, 16)));
    }
}

//@ harness: c12_decode_items
//@ property: C12
//@ tier: quick
//@ unwind: 20
//@ functions: SyncManager::unpack_from_slice; sync_manager_channel::Control::unpack_from_slice; FmmuUsage::try_from; FmmuEx::unpack_from_slice; Pdo::unpack_from_slice; PdoEntry::unpack_from_slice; CategoryType::from
//@ bounds: every 8-byte sync manager / PDO / PDO entry record, every 3-byte FMMU_EX record, every FMMU usage byte, every category type word (complete for the decoders)
//@ assumes: none; well-formedness is a condition of the assertions
//@ outside: the item iteration (CategoryIterator::next = read_exact + these decoders) and the PDO bit length summation in SubDeviceEeprom::pdos (nested async, out of memory at 14 GB; the sum cannot overflow: <= 255 entries x <= 255 bits = 65025 < 2^16)
#[kani::proof]
#[kani::unwind(20)]
pub fn c12_decode_items() {
    use crate::eeprom::types::*;
    use crate::sync_manager_channel::{Direction, OperationMode};
    use ethercrab_wire::EtherCrabWireRead;
    let b: [u8; 8] = kani::any();

    // SyncManager (ETG1000.6 Table 22): start u16, length u16, control u8, status u8 (ignored),
    // enable u8, type u8. Control: bits 0-1 mode (0 buffered, 2 mailbox), bits 2-3 direction
    // (0 read, 1 write), bit 4 ECAT event, bit 5 PDI event, bit 6 watchdog.
    let sm = SyncManager::unpack_from_slice(&b);
    let mode = b[4] & 0x03;
    let dir = (b[4] >> 2) & 0x03;
    let sm_wf = (mode == 0 || mode == 2) && dir <= 1 && b[6] & 0xf0 == 0 && b[7] <= 4;
    kani::cover!(sm.is_ok() && sm_wf && mode == 2 && dir == 1);
    if sm_wf {
        assert!(matches!(sm, Ok(ref s) if s.start_addr == r16(&b, 0)
            && s.length == r16(&b, 2)
            && (s.control.operation_mode == OperationMode::Mailbox) == (mode == 2)
            && (s.control.operation_mode == OperationMode::Normal) == (mode == 0)
            && (s.control.direction == Direction::MasterWrite) == (dir == 1)
            && (s.control.direction == Direction::MasterRead) == (dir == 0)
            && s.control.ecat_event_enable == (b[4] & 0x10 != 0)
            && s.control.dls_user_event_enable == (b[4] & 0x20 != 0)
            && s.control.watchdog_enable == (b[4] & 0x40 != 0)
            && s.enable.bits() == b[6]
            && s.usage_type as u8 == b[7]));
    }

    // FMMU usage byte (ETG1000.6 Table 23): 0 unused, 1 outputs, 2 inputs, 3 SM status, 0xff unused
    let fu = FmmuUsage::try_from(b[0]);
    kani::cover!(matches!(fu, Ok(FmmuUsage::SyncManagerStatus)));
    kani::cover!(fu.is_err());
    if b[0] <= 3 {
        assert!(matches!(fu, Ok(u) if u as u8 == b[0]));
    } else if b[0] == 0xff {
        assert!(matches!(fu, Ok(FmmuUsage::Unused)));
    } else {
        assert!(fu.is_err());
    }

    // FMMU_EX (ETG1020 Table 10): 3 bytes, sync manager index in the second
    let fx = FmmuEx::unpack_from_slice(&b[..3]);
    assert!(matches!(fx, Ok(f) if f.sync_manager == b[1]));

    // PDO header (ETG2010 Table 14): index u16, entry count u8, sync manager u8, dc sync, name, flags
    let p = Pdo::unpack_from_slice(&b);
    kani::cover!(p.is_ok());
    assert!(matches!(p, Ok(p) if p.index == r16(&b, 0) && p.num_entries == b[2]
        && p.sync_manager == b[3] && p.bit_len == 0));

    // PDO entry (ETG2010 Table 15): index u16, subindex u8, name u8, data type u8, bit length u8, flags u16
    let pe = PdoEntry::unpack_from_slice(&b);
    assert!(matches!(pe, Ok(ref e) if e.data_length_bits == b[5]));

    // category type word (ETG1000.6 Table 19)
    let ct = CategoryType::from(r16(&b, 0));
    let w = r16(&b, 0);
    kani::cover!(ct == CategoryType::TxPdo);
    assert!((ct == CategoryType::Strings) == (w == 10));
    assert!((ct == CategoryType::General) == (w == 30));
    assert!((ct == CategoryType::Fmmu) == (w == 40));
    assert!((ct == CategoryType::SyncManager) == (w == 41));
    assert!((ct == CategoryType::FmmuExtended) == (w == 42));
    assert!((ct == CategoryType::TxPdo) == (w == 50));
    assert!((ct == CategoryType::RxPdo) == (w == 51));
    assert!((ct == CategoryType::End) == (w == 0xffff));
}

// ---- strings: find_string over a well-formed Strings category with symbolic contents -----------
//@ harness: c12_find_string
//@ property: C12, C13
//@ tier: thorough
//@ unwind: 6
//@ unwindset: 4Read4read:2; read_exact:2; category0:2; read_chunk:10
//@ timeout: 3600
//@ mem_gb: 45
//@ functions: SubDeviceEeprom::find_string; SubDeviceEeprom::category; EepromRange::read_byte; EepromRange::skip_ahead_bytes; EepromRange::read; heapless::Vec::retain
//@ bounds: Strings category right at the first category position holding 2 strings of symbolic length 0..=5 (5 = one more than the destination holds: must be refused) and symbolic bytes (incl. NUL and >= 0x80); destination capacity N = 4 (strings of exactly N bytes must be returned); index 1 or 2 (symbolic); 8-byte chunks. Measured 1476 s / 40.8 GB (runs alone)
//@ assumes: the image is a well-formed strings category (header type 10, count 2, lengths inside the category) - C12 quantifies over well-formed EEPROMs
//@ outside: more than 2 strings, strings longer than 4 bytes, string indices beyond the table (C13)
#[kani::proof]
#[kani::unwind(6)]
pub fn c12_find_string() {
    fresh_image();
    // category header at word 0x40 = byte 0x80: [type lo, type hi, len lo, len hi] then the payload
    let b = |i: u32| byte_at(0x80 + i);
    kani::assume(b(0) == 10 && b(1) == 0); // Strings
    kani::assume(b(2) == 8 && b(3) == 0); // 8 words = 16 bytes of payload
    kani::assume(b(4) == 2); // two strings
    let l1 = b(5);
    kani::assume(l1 <= 5);
    let l2 = b(6 + u32::from(l1));
    kani::assume(l2 <= 5);
    let which: u8 = kani::any();
    kani::assume(which == 1 || which == 2);
    let (start, len) = if which == 1 { (6u32, l1) } else { (7 + u32::from(l1), l2) };

    let e = SubDeviceEeprom::new(Img::<8>(0));
    let r = run_ready(e.find_string::<4>(which));
    kani::cover!(matches!(&r, Ok(Some(s)) if s.len() == 4));
    kani::cover!(matches!(&r, Ok(Some(s)) if s.len() == 0));
    // reference: the stored bytes, NULs dropped, non-ASCII replaced by '?'
    let mut exp = [0u8; 4];
    let mut n = 0usize;
    let mut i = 0u32;
    while i < 4 {
        if i < u32::from(len) {
            let c = b(start + i);
            if c != 0 {
                exp[n] = if c < 0x80 { c } else { b'?' };
                n += 1;
            }
        }
        i += 1;
    }
    if len > 4 {
        // one byte more than the destination holds: refused, never written past the buffer (C13)
        assert!(matches!(r, Err(Error::StringTooLong { max_length: 4, string_length: 5 })));
        return;
    }
    match r {
        Ok(Some(s)) => {
            let got = s.as_bytes();
            assert!(got.len() == n);
            let mut i = 0;
            while i < 4 {
                if i < n {
                    assert!(got[i] == exp[i]);
                }
                i += 1;
            }
        }
        _ => panic!("a string of a well-formed table that fits the destination was not returned"),
    }
}

// C04: every transmitted frame is a well-formed EtherCAT frame saying what was asked.
//
// Observation point: the byte slice handed to the closure of `SendableFrame::send_blocking`
// (= what the network driver gets). Driving path (all real code, all sync):
//   PduStorage::try_split -> PduLoop::alloc_frame (claim_created, FrameBox::init) ->
//   CreatedFrame::push_pdu / push_pdu_slice_rest (Command::code / Command::pack / PduHeader /
//   PduFlags packing) -> CreatedFrame::mark_sendable (EthercatFrameHeader) ->
//   PduTx::next_sendable_frame -> SendableFrame::send_blocking (as_bytes).
// Oracle: `Exp`, an independent byte-placing encoder written from the wire layout
//   [dst 6 = ff][src 6 = 10][ethertype 88 a4][ecat hdr u16 LE = len | 1<<12]
//   { [cmd 1][idx 1]([adp 2 LE][ado 2 LE] | [logical 4 LE])[len|flags 2 LE][irq 2 = 0][data len][wkc 2 = 0] }*
// with its own command code table; more-follows = bit 15 of len|flags on all datagrams but the
// last. The real frame is compared with it byte for byte (check_sent), the frame length must be
// 16 + sum(12 + len) and <= DATA.
// The frame slot is filled with arbitrary garbage before allocation (existing hooks
// `PduLoop::verif_storage_ref`, `VerifFrameElement::verif_buf_ptr`) and the datagram index counter
// starts at an arbitrary value (`PduStorageRef::verif_set_cursors`), so "zero padding / zero WKC /
// zero IRQ" is checked against a dirty slot and the index byte against every counter value incl.
// wrap 255 -> 0. Index bytes: the frame byte must equal the handle's `pdu_idx`, and indices are
// consecutive per index-drawing call (note: a REFUSED push_pdu draws an index too, see after_push).
// Frame size is the const generic `DATA` of `PduStorage`: each harness is instantiated for a few
// concrete sizes (28, 29, 30, 44, 64); a symbolic frame size is not expressible with this type.
// Cost note: a push whose data LENGTH is symbolic costs ~0.6M SAT variables (whole-object byte
// updates of the storage object); a symbolic override on fixed-length data is 10x cheaper. Hence
// c04_len_arith_* (fixed data lengths, any override, 3 pushes) vs c04_push*/c04_fill_rest*
// (symbolic data lengths, fewer pushes or thorough tier).
use crate::{
    Command, PduStorage, Reads, Writes,
    error::{Error, PduError},
    pdu_loop::{CreatedFrame, VerifFrameElement},
    timer_factory::{LabeledTimeout, TimeoutKind},
};

/// Ethernet header + EtherCAT frame header.
const HDR: usize = 16;
/// Datagram header (10) + working counter (2).
const OVH: usize = 12;

fn pdu_timeout() -> LabeledTimeout {
    LabeledTimeout {
        duration: core::time::Duration::from_micros(30_000),
        kind: TimeoutKind::Pdu,
    }
}

// ---- request description + independent reference encoder --------------------------------------

/// What the caller asks for. `kind`: 0 NOP, 1 APRD, 2 APWR, 3 FPRD, 4 FPWR, 5 BRD, 6 BWR, 7 LRD,
/// 8 LWR, 9 LRW, 10 FRMW. `a` = position / station address, `r` = register (ADO), `l` = logical
/// address.
#[derive(Copy, Clone)]
pub struct Req {
    pub kind: u8,
    pub a: u16,
    pub r: u16,
    pub l: u32,
}

pub fn any_req() -> Req {
    let q = Req {
        kind: kani::any(),
        a: kani::any(),
        r: kani::any(),
        l: kani::any(),
    };
    kani::assume(q.kind < 11);
    q
}

/// The real command value, built the way callers build it (public constructors where they exist).
pub fn real_cmd(q: &Req) -> Command {
    match q.kind {
        0 => Command::Nop,
        1 => Command::aprd(q.a, q.r).into(),
        2 => Command::apwr(q.a, q.r).into(),
        3 => Command::fprd(q.a, q.r).into(),
        4 => Command::fpwr(q.a, q.r).into(),
        5 => Command::brd(q.r).into(),
        6 => Command::bwr(q.r).into(),
        7 => Command::Read(Reads::Lrd { address: q.l }),
        8 => Command::lwr(q.l).into(),
        9 => Command::lrw(q.l).into(),
        _ => Command::frmw(q.a, q.r).into(),
    }
}

/// Reference: command code on the wire (ETG1000.4 table, written independently).
pub fn ref_code(kind: u8) -> u8 {
    match kind {
        0 => 0,   // NOP
        1 => 1,   // APRD
        2 => 2,   // APWR
        3 => 4,   // FPRD
        4 => 5,   // FPWR
        5 => 7,   // BRD
        6 => 8,   // BWR
        7 => 10,  // LRD
        8 => 11,  // LWR
        9 => 12,  // LRW
        _ => 14,  // FRMW
    }
}

/// Reference: the four address bytes on the wire.
pub fn ref_addr(q: &Req) -> [u8; 4] {
    let (adp, ado): (u32, u32) = match q.kind {
        0 => (0, 0),
        // auto increment: position p is sent as -p (mod 2^16)
        1 | 2 => ((0x1_0000u32 - q.a as u32) % 0x1_0000, q.r as u32),
        3 | 4 | 10 => (q.a as u32, q.r as u32),
        // broadcast: ADP is zero when sent
        5 | 6 => (0, q.r as u32),
        _ => (q.l % 0x1_0000, q.l / 0x1_0000),
    };
    [
        (adp % 256) as u8,
        (adp / 256) as u8,
        (ado % 256) as u8,
        (ado / 256) as u8,
    ]
}

/// Reference frame under construction.
pub struct Exp<const D: usize> {
    pub buf: [u8; D],
    /// bytes of the datagram area in use
    pub used: usize,
    /// offset (in `buf`) of the most recent datagram, 0 = none yet
    pub last: usize,
}

impl<const D: usize> Exp<D> {
    pub fn new() -> Self {
        let mut buf = [0u8; D];
        let mut i = 0;
        while i < 6 {
            buf[i] = 0xff;
            buf[6 + i] = 0x10;
            i += 1;
        }
        buf[12] = 0x88;
        buf[13] = 0xa4;
        Self {
            buf,
            used: 0,
            last: 0,
        }
    }

    /// Room for datagrams.
    pub fn cap() -> usize {
        D - HDR
    }

    pub fn fits(&self, total: usize) -> bool {
        self.used + OVH + total <= Self::cap()
    }

    /// Bytes of payload a fill-the-rest push can still take.
    pub fn space(&self) -> usize {
        if Self::cap() >= self.used + OVH {
            Self::cap() - self.used - OVH
        } else {
            0
        }
    }

    /// Append a datagram of `total` payload bytes whose first `n` bytes are `data[..n]`, rest zero.
    pub fn push<const M: usize>(&mut self, q: &Req, idx: u8, data: &[u8; M], n: usize, total: usize) {
        let p = HDR + self.used;
        let a = ref_addr(q);
        self.buf[p] = ref_code(q.kind);
        self.buf[p + 1] = idx;
        self.buf[p + 2] = a[0];
        self.buf[p + 3] = a[1];
        self.buf[p + 4] = a[2];
        self.buf[p + 5] = a[3];
        // length in bits 0..=10, no circulating bit, more-follows (bit 15) clear: last so far
        self.buf[p + 6] = (total % 256) as u8;
        self.buf[p + 7] = ((total / 256) % 8) as u8;
        // irq = 0, padding = 0, wkc = 0: already zero
        let mut i = 0;
        while i < M {
            if i < n {
                self.buf[p + 10 + i] = data[i];
            }
            i += 1;
        }
        if self.last != 0 {
            // previous datagram is no longer the last one
            self.buf[self.last + 7] |= 0x80;
        }
        self.last = p;
        self.used += OVH + total;
    }

    /// Write the EtherCAT frame header; returns the total frame length.
    pub fn finish(&mut self) -> usize {
        let h = self.used + 0x1000;
        self.buf[14] = (h % 256) as u8;
        self.buf[15] = (h / 256) as u8;
        HDR + self.used
    }
}

/// Compare what the driver got with the reference.
pub fn check_sent<const D: usize>(bytes: &[u8], exp: &[u8; D], exp_len: usize) {
    // never larger than the configured frame size
    assert!(bytes.len() <= D);
    assert!(bytes.len() == exp_len);
    let mut i = 0;
    while i < D {
        if i < exp_len {
            assert!(bytes[i] == exp[i]);
        }
        i += 1;
    }
}

/// Running expectations besides the bytes: next datagram index, datagrams accepted so far.
pub struct Track {
    pub next_idx: u8,
    pub npdu: u8,
    pub refused: u8,
}

/// `pdu_payload_len` seen through the real `can_push_pdu_payload`: for an arbitrary `k` the real
/// answer must be the reference answer for `used` consumed bytes (this pins `pdu_payload_len` to
/// `used` whenever `used + 12 <= capacity`).
fn check_consumed<const D: usize>(f: &CreatedFrame<'_>, exp: &Exp<D>) {
    let k: u16 = kani::any();
    assert!(f.can_push_pdu_payload(k as usize) == exp.fits(k as usize));
}

/// requested length: the override, but never less than the data
pub fn ref_total(n: usize, ovr: Option<u16>) -> usize {
    match ovr {
        None => n,
        Some(o) => {
            if (o as usize) > n {
                o as usize
            } else {
                n
            }
        }
    }
}

/// Judge the outcome of one `push_pdu` (handle fields given as a tuple) and update the reference.
fn after_push<const D: usize, const M: usize>(
    res: Result<(u8, u8, u8, usize), PduError>,
    exp: &mut Exp<D>,
    t: &mut Track,
    q: &Req,
    data: &[u8; M],
    n: usize,
    total: usize,
) -> bool {
    let fits = exp.fits(total);
    // push_pdu draws a datagram index before it knows whether the datagram fits, so a refused
    // push consumes an index too
    let idx = t.next_idx;
    t.next_idx = t.next_idx.wrapping_add(1);
    match res {
        Ok((index_in_frame, pdu_idx, command_code, alloc_size)) => {
            assert!(fits);
            assert!(pdu_idx == idx);
            assert!(command_code == ref_code(q.kind));
            assert!(alloc_size == OVH + total);
            assert!(index_in_frame == t.npdu);
            exp.push(q, pdu_idx, data, n, total);
            t.npdu += 1;
            true
        }
        Err(e) => {
            // refused, with the documented error, and only when it really does not fit
            assert!(!fits);
            assert!(matches!(e, PduError::TooLong));
            t.refused += 1;
            false
        }
    }
}

/// One symbolic `push_pdu` whose data is a slice of symbolic length `0..=M`.
fn step_push_slice<const D: usize, const M: usize>(
    f: &mut CreatedFrame<'_>,
    exp: &mut Exp<D>,
    t: &mut Track,
) -> bool {
    let q = any_req();
    let data: [u8; M] = kani::any();
    let n: usize = kani::any();
    kani::assume(n <= M);
    let ovr: Option<u16> = kani::any();
    let res = f
        .push_pdu(real_cmd(&q), &data[..n], ovr)
        .map(|h| (h.index_in_frame, h.pdu_idx, h.command_code, h.alloc_size));
    let ok = after_push::<D, M>(res, exp, t, &q, &data, n, ref_total(n, ovr));
    check_consumed::<D>(f, exp);
    ok
}

/// One symbolic `push_pdu` whose data is a `K` byte array (length fixed per harness, content,
/// command and override symbolic).
fn step_push_arr<const D: usize, const K: usize>(
    f: &mut CreatedFrame<'_>,
    exp: &mut Exp<D>,
    t: &mut Track,
) -> bool {
    let q = any_req();
    let data: [u8; K] = kani::any();
    let ovr: Option<u16> = kani::any();
    let res = f
        .push_pdu(real_cmd(&q), data, ovr)
        .map(|h| (h.index_in_frame, h.pdu_idx, h.command_code, h.alloc_size));
    let ok = after_push::<D, K>(res, exp, t, &q, &data, K, ref_total(K, ovr));
    check_consumed::<D>(f, exp);
    ok
}

/// One symbolic `push_pdu_slice_rest` with `0..=M` input bytes: returns `Some((taken, cut))`.
fn step_rest<const D: usize, const M: usize>(
    f: &mut CreatedFrame<'_>,
    exp: &mut Exp<D>,
    t: &mut Track,
) -> Option<(usize, bool)> {
    let q = any_req();
    let data: [u8; M] = kani::any();
    let n: usize = kani::any();
    kani::assume(n <= M);
    let space = exp.space();
    // exactly min(n, space) bytes; nothing to report when that is zero
    let want = if n == 0 || space == 0 {
        None
    } else if n < space {
        Some(n)
    } else {
        Some(space)
    };
    let res = f
        .push_pdu_slice_rest(real_cmd(&q), &data[..n])
        .map(|o| o.map(|(taken, h)| (taken, h.index_in_frame, h.pdu_idx, h.command_code, h.alloc_size)));
    let out = match res {
        Ok(Some((taken, index_in_frame, pdu_idx, command_code, alloc_size))) => {
            assert!(want == Some(taken));
            assert!(pdu_idx == t.next_idx);
            t.next_idx = t.next_idx.wrapping_add(1);
            assert!(command_code == ref_code(q.kind));
            assert!(alloc_size == OVH + taken);
            assert!(index_in_frame == t.npdu);
            exp.push(&q, pdu_idx, &data, taken, taken);
            t.npdu += 1;
            Some((taken, taken < n))
        }
        Ok(None) => {
            assert!(want.is_none());
            None
        }
        Err(_) => {
            // never refused: cut to what fits, or None
            assert!(false);
            None
        }
    };
    check_consumed::<D>(f, exp);
    out
}

/// Fresh storage whose only slot is pre-filled with arbitrary bytes and whose datagram index
/// counter starts anywhere; then the real allocation (claim_created + FrameBox::init).
macro_rules! setup {
    ($storage:ident, $tx:ident, $pdu_loop:ident, $f:ident, $exp:ident, $t:ident, $D:expr) => {
        let $storage: PduStorage<1, { $D }> = PduStorage::new();
        let (mut $tx, _rx, $pdu_loop) = $storage.try_split().unwrap();
        let first_idx: u8 = kani::any();
        {
            let sref = $pdu_loop.verif_storage_ref();
            sref.verif_set_cursors(0, first_idx);
            let garbage: [u8; $D] = kani::any();
            unsafe {
                let p = VerifFrameElement::verif_buf_ptr(sref.frame_at_index(0));
                core::ptr::copy_nonoverlapping(garbage.as_ptr(), p, $D);
            }
        }
        let mut $f = $pdu_loop.alloc_frame().unwrap();
        let mut $exp = Exp::<{ $D }>::new();
        let mut $t = Track {
            next_idx: first_idx,
            npdu: 0,
            refused: 0,
        };
    };
}

/// mark sendable, fetch from the TX side, send, compare with the reference inside the closure.
macro_rules! send_and_check {
    ($tx:ident, $pdu_loop:ident, $f:ident, $exp:ident, $D:expr) => {
        let exp_len = $exp.finish();
        let fut = $f.mark_sendable(&$pdu_loop, pdu_timeout(), 0);
        let sendable = $tx.next_sendable_frame().unwrap();
        let mut seen = false;
        let r = sendable.send_blocking(|bytes| {
            seen = true;
            check_sent::<{ $D }>(bytes, &$exp.buf, exp_len);
            Ok(bytes.len())
        });
        assert!(seen);
        assert!(matches!(r, Ok(l) if l == exp_len));
        // the response future stays alive (never polled) until after the send
        core::mem::forget(fut);
    };
}

// ---- c04_len_arith: fit / TooLong decisions, refused pushes change nothing -----------------------
//
// Three push_pdu calls; data lengths K1,K2,K3 are fixed per harness, the override of each push is
// any Option<u16>, so each requested length is symbolic over max(K, 0..=65535). after_push checks
// accepted <=> consumed + 12 + len <= DATA - 16; check_consumed checks pdu_payload_len after every
// push (accepted or refused); the frame then goes out and must consist of the accepted datagrams
// only.
macro_rules! len_arith_body {
    ($storage:ident, $tx:ident, $pdu_loop:ident, $f:ident, $exp:ident, $t:ident, $a:ident, $b:ident, $c:ident, $D:expr, $K1:expr, $K2:expr, $K3:expr) => {
        setup!($storage, $tx, $pdu_loop, $f, $exp, $t, $D);
        let $a = step_push_arr::<{ $D }, { $K1 }>(&mut $f, &mut $exp, &mut $t);
        let $b = step_push_arr::<{ $D }, { $K2 }>(&mut $f, &mut $exp, &mut $t);
        let $c = step_push_arr::<{ $D }, { $K3 }>(&mut $f, &mut $exp, &mut $t);
    };
}

//@ harness: c04_len_arith_28
//@ property: C04
//@ tier: quick
//@ unwind: 30
//@ functions: CreatedFrame::push_pdu; CreatedFrame::can_push_pdu_payload; CreatedFrame::mark_sendable; FrameBox::init; PduTx::next_sendable_frame; SendableFrame::send_blocking; SendableFrame::as_bytes; Command::pack; Command::code; EthercatFrameHeader::pdu
//@ bounds: smallest legal frame (28 bytes = room for exactly one empty datagram); three push_pdu with data lengths 1, 0, 0 and any Option<u16> override each; any command kind/address/content; dirty slot; any first index; unwind = frame size + 2 (compare loop)
//@ assumes: kind < 11
//@ stubs: embassy_time_driver::now -> support::vnow (virtual clock); embassy_time_driver::schedule_wake -> no-op
//@ outside: other frame sizes (see siblings); symbolic data length (c04_push*); more than three pushes
#[kani::proof]
#[kani::unwind(30)]
#[kani::stub(embassy_time_driver::now, crate::verif::support::vnow)]
#[kani::stub(embassy_time_driver::schedule_wake, crate::verif::support::vschedule_wake)]
pub fn c04_len_arith_28() {
    len_arith_body!(storage, tx, pdu_loop, f, exp, t, a, b, c, 28, 1, 0, 0);
    // one byte never fits; an empty datagram fits exactly once
    kani::cover!(!a && b && !c);
    kani::cover!(!a && !b && c);
    kani::cover!(!a && !b && !c);
    assert!(!a);
    assert!(!(b && c));
    send_and_check!(tx, pdu_loop, f, exp, 28);
}

//@ harness: c04_len_arith_29
//@ property: C04
//@ tier: quick
//@ unwind: 31
//@ functions: CreatedFrame::push_pdu; CreatedFrame::can_push_pdu_payload; CreatedFrame::mark_sendable; PduTx::next_sendable_frame; SendableFrame::send_blocking; Command::pack; Command::code
//@ bounds: 29-byte frame (13 bytes of room); data lengths 2, 1, 0; any override each; everything else as c04_len_arith_28
//@ assumes: kind < 11
//@ stubs: embassy_time_driver::now -> support::vnow; embassy_time_driver::schedule_wake -> no-op
//@ outside: as c04_len_arith_28
#[kani::proof]
#[kani::unwind(31)]
#[kani::stub(embassy_time_driver::now, crate::verif::support::vnow)]
#[kani::stub(embassy_time_driver::schedule_wake, crate::verif::support::vschedule_wake)]
pub fn c04_len_arith_29() {
    len_arith_body!(storage, tx, pdu_loop, f, exp, t, a, b, c, 29, 2, 1, 0);
    kani::cover!(!a && b && !c);
    kani::cover!(!a && !b && c);
    assert!(!a);
    send_and_check!(tx, pdu_loop, f, exp, 29);
}

//@ harness: c04_len_arith_44
//@ property: C04
//@ tier: quick
//@ unwind: 46
//@ functions: CreatedFrame::push_pdu; CreatedFrame::can_push_pdu_payload; CreatedFrame::mark_sendable; PduTx::next_sendable_frame; SendableFrame::send_blocking; Command::pack; Command::code
//@ bounds: 44-byte frame (28 bytes of room, two datagrams at most); data lengths 0, 2, 4; any override each; everything else as c04_len_arith_28
//@ assumes: kind < 11
//@ stubs: embassy_time_driver::now -> support::vnow; embassy_time_driver::schedule_wake -> no-op
//@ outside: as c04_len_arith_28
#[kani::proof]
#[kani::unwind(46)]
#[kani::stub(embassy_time_driver::now, crate::verif::support::vnow)]
#[kani::stub(embassy_time_driver::schedule_wake, crate::verif::support::vschedule_wake)]
pub fn c04_len_arith_44() {
    len_arith_body!(storage, tx, pdu_loop, f, exp, t, a, b, c, 44, 0, 2, 4);
    kani::cover!(a && !b && c && exp.used == 28);
    kani::cover!(a && b && !c);
    kani::cover!(!a && b && !c);
    kani::cover!(!a && !b && !c);
    assert!(t.npdu <= 2);
    send_and_check!(tx, pdu_loop, f, exp, 44);
}

//@ harness: c04_len_arith_64
//@ property: C04
//@ tier: quick
//@ unwind: 66
//@ functions: CreatedFrame::push_pdu; CreatedFrame::can_push_pdu_payload; CreatedFrame::mark_sendable; PduTx::next_sendable_frame; SendableFrame::send_blocking; Command::pack; Command::code
//@ bounds: 64-byte frame (48 bytes of room: 16 + 12 + 20 fills it exactly); data lengths 4, 0, 8; any override each; everything else as c04_len_arith_28
//@ assumes: kind < 11
//@ stubs: embassy_time_driver::now -> support::vnow; embassy_time_driver::schedule_wake -> no-op
//@ outside: as c04_len_arith_28
#[kani::proof]
#[kani::unwind(66)]
#[kani::stub(embassy_time_driver::now, crate::verif::support::vnow)]
#[kani::stub(embassy_time_driver::schedule_wake, crate::verif::support::vschedule_wake)]
pub fn c04_len_arith_64() {
    len_arith_body!(storage, tx, pdu_loop, f, exp, t, a, b, c, 64, 4, 0, 8);
    kani::cover!(a && b && c && exp.used == 48);
    kani::cover!(a && !b && c);
    kani::cover!(a && b && !c);
    kani::cover!(!a && b && c);
    send_and_check!(tx, pdu_loop, f, exp, 64);
}

// ---- c04_push*: push_pdu with a data slice of symbolic length -----------------------------------

//@ harness: c04_push1_30
//@ property: C04
//@ tier: quick
//@ unwind: 32
//@ functions: CreatedFrame::push_pdu; CreatedFrame::can_push_pdu_payload; CreatedFrame::mark_sendable; FrameBox::init; PduTx::next_sendable_frame; SendableFrame::send_blocking; SendableFrame::as_bytes; Command::pack; Command::code
//@ bounds: 30-byte frame (room for a 2-byte datagram); one push_pdu with a data slice of symbolic length 0..=4 (capacity + 2 slack) and any Option<u16> override; any command kind/address/content; dirty slot; any first index; unwind = frame size + 2
//@ assumes: kind < 11; data length <= 4
//@ stubs: embassy_time_driver::now -> support::vnow; embassy_time_driver::schedule_wake -> no-op
//@ outside: other frame sizes; longer programs (siblings)
#[kani::proof]
#[kani::unwind(32)]
#[kani::stub(embassy_time_driver::now, crate::verif::support::vnow)]
#[kani::stub(embassy_time_driver::schedule_wake, crate::verif::support::vschedule_wake)]
pub fn c04_push1_30() {
    setup!(storage, tx, pdu_loop, f, exp, t, 30);
    let a = step_push_slice::<30, 4>(&mut f, &mut exp, &mut t);
    kani::cover!(a && exp.used == 14);
    kani::cover!(a && exp.used == 12);
    kani::cover!(!a);
    send_and_check!(tx, pdu_loop, f, exp, 30);
}

//@ harness: c04_push1_44
//@ property: C04
//@ tier: quick
//@ unwind: 46
//@ functions: CreatedFrame::push_pdu; CreatedFrame::can_push_pdu_payload; CreatedFrame::mark_sendable; PduTx::next_sendable_frame; SendableFrame::send_blocking; Command::pack; Command::code
//@ bounds: 44-byte frame (room for a 16-byte datagram); one push_pdu with a data slice of symbolic length 0..=18 (capacity + 2 slack) and any Option<u16> override; rest as c04_push1_30
//@ assumes: kind < 11; data length <= 18
//@ stubs: embassy_time_driver::now -> support::vnow; embassy_time_driver::schedule_wake -> no-op
//@ outside: other frame sizes; longer programs (siblings)
#[kani::proof]
#[kani::unwind(46)]
#[kani::stub(embassy_time_driver::now, crate::verif::support::vnow)]
#[kani::stub(embassy_time_driver::schedule_wake, crate::verif::support::vschedule_wake)]
pub fn c04_push1_44() {
    setup!(storage, tx, pdu_loop, f, exp, t, 44);
    let a = step_push_slice::<44, 18>(&mut f, &mut exp, &mut t);
    kani::cover!(a && exp.used == 28);
    kani::cover!(a && exp.used == 12);
    kani::cover!(!a);
    send_and_check!(tx, pdu_loop, f, exp, 44);
}

//@ harness: c04_push2_44
//@ property: C04
//@ tier: thorough
//@ unwind: 46
//@ timeout: 900
//@ functions: CreatedFrame::push_pdu; CreatedFrame::can_push_pdu_payload; CreatedFrame::mark_sendable; PduTx::next_sendable_frame; SendableFrame::send_blocking; Command::pack; Command::code
//@ bounds: 44-byte frame; two push_pdu, each with a data slice of symbolic length 0..=4 and any Option<u16> override; rest as c04_push1_30
//@ assumes: kind < 11; data length <= 4
//@ stubs: embassy_time_driver::now -> support::vnow; embassy_time_driver::schedule_wake -> no-op
//@ outside: other frame sizes; longer programs (c04_push3_64)
#[kani::proof]
#[kani::unwind(46)]
#[kani::stub(embassy_time_driver::now, crate::verif::support::vnow)]
#[kani::stub(embassy_time_driver::schedule_wake, crate::verif::support::vschedule_wake)]
pub fn c04_push2_44() {
    setup!(storage, tx, pdu_loop, f, exp, t, 44);
    let a = step_push_slice::<44, 4>(&mut f, &mut exp, &mut t);
    let b = step_push_slice::<44, 4>(&mut f, &mut exp, &mut t);
    kani::cover!(a && b && exp.used == 28);
    kani::cover!(a && !b);
    kani::cover!(!a && b);
    send_and_check!(tx, pdu_loop, f, exp, 44);
}

//@ harness: c04_push3_64
//@ property: C04
//@ tier: thorough
//@ unwind: 66
//@ timeout: 1500
//@ functions: CreatedFrame::push_pdu; CreatedFrame::can_push_pdu_payload; CreatedFrame::mark_sendable; PduTx::next_sendable_frame; SendableFrame::send_blocking; Command::pack; Command::code
//@ bounds: 64-byte frame (48 bytes of room = three 4-byte datagrams); three push_pdu, each with a data slice of symbolic length 0..=4 and any Option<u16> override; rest as c04_push1_30
//@ assumes: kind < 11; data length <= 4
//@ stubs: embassy_time_driver::now -> support::vnow; embassy_time_driver::schedule_wake -> no-op
//@ outside: other frame sizes; more than three datagrams
#[kani::proof]
#[kani::unwind(66)]
#[kani::stub(embassy_time_driver::now, crate::verif::support::vnow)]
#[kani::stub(embassy_time_driver::schedule_wake, crate::verif::support::vschedule_wake)]
pub fn c04_push3_64() {
    setup!(storage, tx, pdu_loop, f, exp, t, 64);
    let a = step_push_slice::<64, 4>(&mut f, &mut exp, &mut t);
    let b = step_push_slice::<64, 4>(&mut f, &mut exp, &mut t);
    let c = step_push_slice::<64, 4>(&mut f, &mut exp, &mut t);
    kani::cover!(a && b && c && exp.used == 48);
    kani::cover!(a && !b && c);
    kani::cover!(a && b && !c);
    send_and_check!(tx, pdu_loop, f, exp, 64);
}

// ---- c04_fill_rest: push_pdu_slice_rest -----------------------------------------------------------
//
// [push_pdu of a K-byte array with any override, so the consumed size is symbolic] then two
// fill-the-rest pushes with 0..=2*capacity input bytes each. step_rest checks: result is None iff
// input empty or no byte fits, else exactly min(len, space) bytes; never an error; the datagram in
// the sent frame carries exactly those bytes and that length.
macro_rules! fill_rest_body {
    ($storage:ident, $tx:ident, $pdu_loop:ident, $f:ident, $exp:ident, $t:ident, $a:ident, $r1:ident, $r2:ident, $D:expr, $K:expr, $M:expr) => {
        setup!($storage, $tx, $pdu_loop, $f, $exp, $t, $D);
        let $a = step_push_arr::<{ $D }, { $K }>(&mut $f, &mut $exp, &mut $t);
        let $r1 = step_rest::<{ $D }, { $M }>(&mut $f, &mut $exp, &mut $t);
        let $r2 = step_rest::<{ $D }, { $M }>(&mut $f, &mut $exp, &mut $t);
    };
}

//@ harness: c04_fill_rest_30
//@ property: C04
//@ tier: quick
//@ unwind: 32
//@ timeout: 900
//@ functions: CreatedFrame::push_pdu_slice_rest; CreatedFrame::can_push_pdu_payload; CreatedFrame::mark_sendable; FrameBox::init; PduTx::next_sendable_frame; SendableFrame::send_blocking; Command::pack; Command::code
//@ bounds: 30-byte frame (14 bytes of room, i.e. 2 payload bytes); two push_pdu_slice_rest with 0..=28 (= 2 * capacity) symbolic input bytes each; any command kind/address/content; dirty slot; any first index; unwind = frame size + 2
//@ assumes: kind < 11; input length <= 28
//@ stubs: embassy_time_driver::now -> support::vnow; embassy_time_driver::schedule_wake -> no-op
//@ outside: other frame sizes (siblings)
#[kani::proof]
#[kani::unwind(32)]
#[kani::stub(embassy_time_driver::now, crate::verif::support::vnow)]
#[kani::stub(embassy_time_driver::schedule_wake, crate::verif::support::vschedule_wake)]
pub fn c04_fill_rest_30() {
    setup!(storage, tx, pdu_loop, f, exp, t, 30);
    let r1 = step_rest::<30, 28>(&mut f, &mut exp, &mut t);
    let r2 = step_rest::<30, 28>(&mut f, &mut exp, &mut t);
    kani::cover!(r1 == Some((2, true)) && r2.is_none());
    kani::cover!(r1 == Some((1, false)) && r2.is_none());
    kani::cover!(r1.is_none() && r2 == Some((2, false)));
    kani::cover!(r1.is_none() && r2.is_none());
    send_and_check!(tx, pdu_loop, f, exp, 30);
}

//@ harness: c04_fill_rest_44
//@ property: C04
//@ tier: thorough
//@ unwind: 58
//@ timeout: 1200
//@ functions: CreatedFrame::push_pdu_slice_rest; CreatedFrame::push_pdu; CreatedFrame::can_push_pdu_payload; CreatedFrame::mark_sendable; PduTx::next_sendable_frame; SendableFrame::send_blocking; Command::pack; Command::code
//@ bounds: 44-byte frame (28 bytes of room); push_pdu of 1 data byte with any override, then two push_pdu_slice_rest with 0..=56 (= 2 * capacity) symbolic input bytes each; unwind = input buffer + 2 (reference copy loop)
//@ assumes: kind < 11; input length <= 56
//@ stubs: embassy_time_driver::now -> support::vnow; embassy_time_driver::schedule_wake -> no-op
//@ outside: other frame sizes (a 64-byte variant with 96 input bytes held too but needed 16 min / 6.7 GB and was dropped)
#[kani::proof]
#[kani::unwind(58)]
#[kani::stub(embassy_time_driver::now, crate::verif::support::vnow)]
#[kani::stub(embassy_time_driver::schedule_wake, crate::verif::support::vschedule_wake)]
pub fn c04_fill_rest_44() {
    fill_rest_body!(storage, tx, pdu_loop, f, exp, t, a, r1, r2, 44, 1, 56);
    // 13 + (12 + 3) = 28: cut exactly at the end of the buffer
    kani::cover!(a && exp.used == 28 && r1 == Some((3, true)) && r2.is_none());
    kani::cover!(!a && r1 == Some((1, false)) && matches!(r2, Some((3, true))));
    kani::cover!(!a && r1 == Some((16, true)));
    kani::cover!(a && r1.is_none() && r2.is_none());
    send_and_check!(tx, pdu_loop, f, exp, 44);
}

//@ harness: c04_rest_push_44
//@ property: C04
//@ tier: thorough
//@ unwind: 46
//@ timeout: 900
//@ functions: CreatedFrame::push_pdu_slice_rest; CreatedFrame::push_pdu; CreatedFrame::can_push_pdu_payload; CreatedFrame::mark_sendable; PduTx::next_sendable_frame; SendableFrame::send_blocking; Command::pack; Command::code
//@ bounds: 44-byte frame (28 bytes of room); push_pdu_slice_rest with 0..=8 symbolic input bytes, then push_pdu of 2 data bytes with any override (more-follows back-patch of a fill-the-rest datagram by push_pdu)
//@ assumes: kind < 11; input length <= 8
//@ stubs: embassy_time_driver::now -> support::vnow; embassy_time_driver::schedule_wake -> no-op
//@ outside: other frame sizes
#[kani::proof]
#[kani::unwind(46)]
#[kani::stub(embassy_time_driver::now, crate::verif::support::vnow)]
#[kani::stub(embassy_time_driver::schedule_wake, crate::verif::support::vschedule_wake)]
pub fn c04_rest_push_44() {
    setup!(storage, tx, pdu_loop, f, exp, t, 44);
    let r1 = step_rest::<44, 8>(&mut f, &mut exp, &mut t);
    let b = step_push_arr::<44, 2>(&mut f, &mut exp, &mut t);
    kani::cover!(r1 == Some((2, false)) && b && exp.used == 28);
    kani::cover!(r1 == Some((3, false)) && !b);
    kani::cover!(r1.is_none() && b);
    send_and_check!(tx, pdu_loop, f, exp, 44);
}

// ---- Command::pack / Command::code -------------------------------------------------------------

//@ harness: c04_cmd_pack
//@ property: C04
//@ tier: quick
//@ unwind: 5
//@ functions: Command::pack; Command::code; Command::aprd; Command::apwr; Command::fprd; Command::fpwr; Command::brd; Command::bwr; Command::lwr; Command::lrw; Command::frmw
//@ bounds: all 11 command kinds, every u16 position/station address, every u16 register, every u32 logical address - complete for these functions; additionally raw Reads::Brd / Writes::Apwr values (bypassing the constructors) carry ADP/ADO verbatim
//@ assumes: kind < 11 (selector of the 11 kinds)
//@ outside: nothing for pack/code
#[kani::proof]
#[kani::unwind(5)]
pub fn c04_cmd_pack() {
    let q = any_req();
    let c = real_cmd(&q);
    let code = c.code();
    let raw = ethercrab_wire::EtherCrabWireWriteSized::pack(&c);
    let want = ref_addr(&q);
    kani::cover!(q.kind == 1 && q.a == 1 && raw[0] == 0xff && raw[1] == 0xff);
    kani::cover!(q.kind == 2 && q.a == 0);
    kani::cover!(q.kind == 9 && q.l == 0x1234_5678);
    kani::cover!(q.kind == 10);
    assert!(code == ref_code(q.kind));
    assert!(raw[0] == want[0]);
    assert!(raw[1] == want[1]);
    assert!(raw[2] == want[2]);
    assert!(raw[3] == want[3]);
    // raw enum values (bypassing the constructors) carry address/register verbatim
    let b = Command::Read(Reads::Brd {
        address: q.a,
        register: q.r,
    });
    let rb = ethercrab_wire::EtherCrabWireWriteSized::pack(&b);
    assert!(b.code() == 7);
    assert!(rb[0] == (q.a % 256) as u8 && rb[1] == (q.a / 256) as u8);
    assert!(rb[2] == (q.r % 256) as u8 && rb[3] == (q.r / 256) as u8);
    let w = Command::Write(Writes::Apwr {
        address: q.a,
        register: q.r,
    });
    let rw = ethercrab_wire::EtherCrabWireWriteSized::pack(&w);
    assert!(w.code() == 2);
    assert!(rw[0] == (q.a % 256) as u8 && rw[1] == (q.a / 256) as u8);
    assert!(rw[2] == (q.r % 256) as u8 && rw[3] == (q.r / 256) as u8);
}

// ---- edge cases added after seeded changes S31 / S32 ---------------------------------------------

//@ harness: c04_fill_rest_exact_overhead
//@ property: C04
//@ tier: quick
//@ unwind: 34
//@ timeout: 900
//@ functions: CreatedFrame::push_pdu_slice_rest; CreatedFrame::push_pdu; CreatedFrame::mark_sendable; SendableFrame::send_blocking
//@ bounds: frames with EXACTLY one datagram overhead (12 bytes) of room left: an empty 28-byte frame, and a 44-byte frame after a push of 4 data bytes; fill-the-rest push of 0..=4 symbolic bytes must report that nothing fits (None), add no datagram and leave the frame as it was
//@ stubs: embassy_time_driver::now -> support::vnow; embassy_time_driver::schedule_wake -> no-op
#[kani::proof]
#[kani::unwind(34)]
#[kani::stub(embassy_time_driver::now, crate::verif::support::vnow)]
#[kani::stub(embassy_time_driver::schedule_wake, crate::verif::support::vschedule_wake)]
pub fn c04_fill_rest_exact_overhead() {
    if kani::any() {
        setup!(storage, tx, pdu_loop, f, exp, t, 28);
        let r = step_rest::<28, 4>(&mut f, &mut exp, &mut t);
        assert!(r.is_none());
        kani::cover!(true);
        check_consumed::<28>(&f, &exp);
    } else {
        let storage: PduStorage<1, 44> = PduStorage::new();
        let (mut tx, _rx, pdu_loop) = storage.try_split().unwrap();
        let mut f = pdu_loop.alloc_frame().unwrap();
        let d4: [u8; 4] = kani::any();
        let h1 = f.push_pdu(Command::fpwr(kani::any(), kani::any()).into(), d4, None).unwrap();
        // 28 bytes of room - 16 used = exactly one datagram overhead left
        let extra: [u8; 4] = kani::any();
        let n: usize = kani::any();
        kani::assume(n >= 1 && n <= 4);
        let r = f.push_pdu_slice_rest(Command::lrw(kani::any()).into(), &extra[..n]);
        assert!(matches!(r, Ok(None)));
        let fut = f.mark_sendable(&pdu_loop, pdu_timeout(), 0);
        let sendable = tx.next_sendable_frame().unwrap();
        let _ = sendable.send_blocking(|b| {
            // still exactly the one datagram, marked as the last one
            assert!(b.len() == 16 + 16);
            assert!(u16::from_le_bytes([b[14], b[15]]) == (16 | 0x1000));
            assert!(b[17] == h1.pdu_idx && u16::from_le_bytes([b[22], b[23]]) == 4);
            assert!(b[26] == d4[0] && b[29] == d4[3] && b[30] == 0 && b[31] == 0);
            kani::cover!(true);
            Ok(b.len())
        });
        core::mem::forget(fut);
    }
}

//@ harness: c04_more_follows_long
//@ property: C04
//@ tier: quick
//@ unwind: 6
//@ timeout: 900
//@ functions: CreatedFrame::push_pdu; PduFlags::pack; PduFlags::unpack_from_slice; CreatedFrame::mark_sendable; SendableFrame::send_blocking
//@ bounds: 320-byte frame; first datagram with a requested length of 256..=276 bytes (symbolic, via the length override, so the length field uses bits 8..10), second datagram of 0 bytes: the first datagram's length/flags word must be len | more-follows, the second's plain; only the two header words and the frame length are compared (not all 320 bytes)
//@ stubs: embassy_time_driver::now -> support::vnow; embassy_time_driver::schedule_wake -> no-op
#[kani::proof]
#[kani::unwind(6)]
#[kani::stub(embassy_time_driver::now, crate::verif::support::vnow)]
#[kani::stub(embassy_time_driver::schedule_wake, crate::verif::support::vschedule_wake)]
pub fn c04_more_follows_long() {
    let storage: PduStorage<1, 320> = PduStorage::new();
    let (mut tx, _rx, pdu_loop) = storage.try_split().unwrap();
    let mut f = pdu_loop.alloc_frame().unwrap();
    let l: u16 = kani::any();
    kani::assume(l >= 256 && l <= 276);
    let h1 = f.push_pdu(Command::fprd(kani::any(), kani::any()).into(), (), Some(l)).unwrap();
    let h2 = f.push_pdu(Command::brd(kani::any()).into(), (), None).unwrap();
    assert!(h2.pdu_idx == h1.pdu_idx.wrapping_add(1));
    let fut = f.mark_sendable(&pdu_loop, pdu_timeout(), 0);
    let sendable = tx.next_sendable_frame().unwrap();
    let ul = usize::from(l);
    let _ = sendable.send_blocking(|b| {
        assert!(b.len() == 16 + 12 + ul + 12);
        // EtherCAT header: length of everything after it, type 1
        assert!(u16::from_le_bytes([b[14], b[15]]) == ((12 + l + 12) | 0x1000));
        // first datagram: full 11-bit length kept, more-follows set
        assert!(u16::from_le_bytes([b[22], b[23]]) == (l | 0x8000));
        // second (last) datagram: length 0, no flags
        let o = 16 + 12 + ul;
        assert!(b[o + 1] == h2.pdu_idx);
        assert!(u16::from_le_bytes([b[o + 6], b[o + 7]]) == 0);
        kani::cover!(l == 276);
        Ok(b.len())
    });
    core::mem::forget(fut);
}

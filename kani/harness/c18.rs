// C18 (complement to engine M): the real configure_dc_sync run as a whole against the scripted
// device behind H1, so that the start-time clause is also decided independently of how the source
// is structured (engine M needs the arithmetic to stay in one straight-line slice).
use crate::{
    Command, DcSupport, DcSync, MainDevice, MainDeviceConfig, PduStorage, SubDeviceGroup, Timeouts,
    command::{Reads, Writes},
    subdevice_group::{DcConfiguration, NoDc, PreOpPdi},
    verif::{h1::*, support::*},
};
use core::time::Duration;

static mut SYS: u64 = 0;
static mut N_WR: usize = 0;
static mut WR_ADDR: [u16; 8] = [0; 8];
static mut WR_REG: [u16; 8] = [0; 8];
static mut WR_VAL: [u64; 8] = [0; 8];
static mut WR_LEN: [usize; 8] = [0; 8];

fn dev(req: &H1Request, resp: &mut H1Response) {
    resp.wkc = 1;
    match req.command {
        Command::Read(Reads::Fprd { register, .. }) => {
            if register == 0x0910 {
                let b = unsafe { SYS }.to_le_bytes();
                let mut i = 0;
                while i < 8 {
                    resp.data[i] = b[i];
                    i += 1;
                }
            }
        }
        Command::Write(Writes::Fpwr { address, register }) => unsafe {
            let k = N_WR;
            assert!(k < 8, "more register writes than a single SubDevice needs");
            WR_ADDR[k] = address;
            WR_REG[k] = register;
            WR_LEN[k] = req.data_len;
            let mut v = [0u8; 8];
            let mut i = 0;
            while i < 8 {
                if i < req.data_len {
                    v[i] = req.data[i];
                }
                i += 1;
            }
            WR_VAL[k] = u64::from_le_bytes(v);
            N_WR = k + 1;
        },
        _ => {}
    }
}

static STORAGE: PduStorage<1, 32> = PduStorage::new();

const PERIOD_NS: u64 = 1 << 20; // 1.048576 ms: a power of two keeps the 64-bit division tractable for SAT
const DELAY_NS: u64 = 2_500_123; // deliberately NOT a multiple of the period

//@ harness: c18_cfg_start_time
//@ property: C18
//@ tier: quick
//@ config: h1
//@ unwind: 10
//@ timeout: 1800
//@ functions: SubDeviceGroup::configure_dc_sync; SubDeviceRef::register_read; WrappedWrite::send; MainDevice::dc_ref_address; Duration::as_nanos; u32::try_from
//@ bounds: 1 SubDevice (DC-capable, SYNC0 or SYNC0+1 or disabled - symbolic), SYNC0 period 2^20 ns (power of two: a general 64-bit divisor does not finish in CBMC, measured 30 min timeout), start delay 2.500123 ms (not a multiple of the period), reference time any u64 below 2^62 (symbolic); every register write is logged by the scripted device
//@ assumes: transport = H1 scripted device; concrete period/delay (64-bit division by a symbolic divisor is decided at full width by engine M instead)
//@ outside: other periods/delays (engine M), more than one SubDevice, the per-cycle arithmetic (engine M)
#[kani::proof]
#[kani::unwind(10)]
pub fn c18_cfg_start_time() {
    let (_tx, _rx, pdu_loop) = STORAGE.try_split().unwrap();
    let md = MainDevice::new(pdu_loop, Timeouts::default(), MainDeviceConfig::default());
    md.verif_set_dc_reference(0x1000);
    let sys: u64 = kani::any();
    kani::assume(sys < (1u64 << 62));
    unsafe {
        SYS = sys;
        N_WR = 0;
    }
    install(dev);
    let mut sd = mk_subdevice(0x1001, 0);
    let mode: u8 = kani::any();
    kani::assume(mode < 4);
    sd.dc_support = if mode == 3 { DcSupport::None } else { DcSupport::Bits64 };
    sd.dc_sync = match mode {
        0 => DcSync::Disabled,
        1 | 3 => DcSync::Sync0,
        _ => DcSync::Sync01 { sync1_period: Duration::from_nanos(500_000) },
    };
    let mut sds = heapless::Vec::<crate::SubDevice, 1>::new();
    let _ = sds.push(sd);
    let group = SubDeviceGroup::<1, 8, crate::DefaultLock, PreOpPdi, NoDc>::verif_new(sds, 0, 0, 0, NoDc);
    let conf = DcConfiguration {
        start_delay: Duration::from_nanos(DELAY_NS),
        sync0_period: Duration::from_nanos(PERIOD_NS),
        sync0_shift: Duration::from_nanos(250_000),
    };
    let res = run_ready(group.configure_dc_sync(&md, conf));
    assert!(res.is_ok());
    let n = unsafe { N_WR };
    kani::cover!(mode == 1 && n == 4);
    kani::cover!(mode == 2 && n == 5);
    if mode == 0 || mode == 3 {
        // SubDevices that do not support DC, or did not ask for it, are not touched
        assert!(n == 0);
    } else {
        let (addr, reg, val, len) = unsafe { (WR_ADDR, WR_REG, WR_VAL, WR_LEN) };
        let mut i = 0;
        while i < 8 {
            if i < n {
                assert!(addr[i] == 0x1001);
            }
            i += 1;
        }
        // 0x0981 <- 0 ; 0x0990 <- start ; 0x09A0 <- period ; [0x09A4 <- sync1] ; 0x0981 <- flags
        assert!(reg[0] == 0x0981 && val[0] == 0 && len[0] == 1);
        assert!(reg[1] == 0x0990 && len[1] == 8);
        let start = val[1];
        // a whole multiple of the period inside (ref + delay - period, ref + delay]
        assert!(start % PERIOD_NS == 0);
        assert!(start <= sys + DELAY_NS && start + PERIOD_NS > sys + DELAY_NS);
        assert!(reg[2] == 0x09a0 && val[2] == PERIOD_NS);
        if mode == 2 {
            assert!(n == 5 && reg[3] == 0x09a4 && val[3] == 500_000);
            assert!(reg[4] == 0x0981 && val[4] == 0x07 && len[4] == 1);
        } else {
            assert!(n == 4 && reg[3] == 0x0981 && val[3] == 0x03 && len[3] == 1);
        }
    }
}

// c03 harnesses

// Window harnesses (C01/C06): pre-emption INSIDE library functions at the cfg(ethercrab_verif_yield)
// yield points. A concrete prefix drives one slot to the window, then a symbolic adversary action
// runs at the yield point (bounded context switch, depth 1), then the suffix checks the outcome.
use crate::{
    Command, PduLoop, PduStorage,
    pdu_loop::{
        VERIF_FIRST_PDU_EMPTY as FIRST_PDU_EMPTY, VerifFrameState as FrameState,
        VerifReceiveFrameFut as ReceiveFrameFut, VerifReceivedFrame as ReceivedFrame,
    },
    verif::{c02::pdu_timeout, support::*},
};

const FRAME: usize = 32;
static STORAGE: PduStorage<1, FRAME> = PduStorage::new();
static mut LOOP: Option<PduLoop<'static>> = None;
static mut FUT_A: Option<ReceiveFrameFut<'static>> = None;
static mut FUT_B: Option<ReceiveFrameFut<'static>> = None;
static mut SITE: u32 = 0;
static mut ACT: u8 = 0;
static mut ACTED: bool = false;
static mut ADR_B: u16 = 0;
static mut IDX_B: u8 = 0;

fn the_loop() -> &'static PduLoop<'static> {
    unsafe { (*core::ptr::addr_of!(LOOP)).as_ref().unwrap() }
}

/// Adversary: what other tasks may do while the library function is suspended at the yield point.
fn hook(site: u32) {
    unsafe {
        if site != SITE || ACTED {
            return;
        }
        ACTED = true;
        // task A gives up on its request (future dropped / cancelled)
        if ACT >= 1 {
            FUT_A = None;
        }
        // task B immediately reuses the slot for a new request
        if ACT >= 2 {
            if let Ok(mut f) = the_loop().alloc_frame() {
                let h = f.push_pdu(Command::fprd(ADR_B, 0x0130).into(), (), Some(2)).unwrap();
                IDX_B = h.pdu_idx;
                if ACT == 2 {
                    FUT_B = Some(f.mark_sendable(the_loop(), pdu_timeout(), 0));
                }
                // ACT == 3: B drops its frame before marking it sendable
            }
        }
    }
}

//@ harness: c06_rx_window
//@ property: C06, C01
//@ tier: quick
//@ config: yield
//@ unwind: 8
//@ unwindset: c06_rx_window:32
//@ timeout: 1800
//@ functions: PduRx::receive_frame; ReceivingFrame::claim_receiving; ReceivingFrame::buf_mut; ReceivingFrame::mark_received; ReceiveFrameFut::drop; ReceiveFrameFut::release; PduLoop::alloc_frame; CreatedFrame::push_pdu; CreatedFrame::mark_sendable; SendableFrame::send_blocking
//@ bounds: 1 slot; request A is abandoned while RX is inside its buffer, at yield point 1 (claimed, nothing copied) or 2 (copied, not yet marked received) - symbolic; adversary: drop only / drop + new request B made sendable / drop + B claimed and dropped - symbolic; one context switch
//@ stubs: embassy_time_driver::now -> virtual clock; schedule_wake -> no-op
//@ assumes: sequential semantics of atomics; pre-emption only at the two yield points
#[kani::proof]
#[kani::unwind(8)]
#[kani::stub(embassy_time_driver::now, crate::verif::support::vnow)]
#[kani::stub(embassy_time_driver::schedule_wake, crate::verif::support::vschedule_wake)]
pub fn c06_rx_window() {
    let (mut tx, mut rx, pdu_loop) = STORAGE.try_split().unwrap();
    unsafe { LOOP = Some(pdu_loop) };
    set_now(0);
    let adr_a: u16 = kani::any();
    let adr_b: u16 = kani::any();
    let mut fa = the_loop().alloc_frame().unwrap();
    let _ha = fa.push_pdu(Command::fprd(adr_a, 0x0130).into(), (), Some(2)).unwrap();
    unsafe { FUT_A = Some(fa.mark_sendable(the_loop(), pdu_timeout(), 0)) };
    let mut wire = [0u8; 30];
    let sf = tx.next_sendable_frame().unwrap();
    let _ = sf.send_blocking(|b| {
        let mut i = 0;
        while i < 30 {
            wire[i] = b[i];
            i += 1;
        }
        Ok(30)
    });
    wire[6] = 0x12;
    wire[26] = kani::any();
    wire[27] = kani::any();
    wire[28] = 1;

    let site: u32 = kani::any();
    kani::assume(site == 1 || site == 2);
    let act: u8 = kani::any();
    kani::assume(act >= 1 && act <= 3);
    unsafe {
        SITE = site;
        ACT = act;
        ACTED = false;
        ADR_B = adr_b;
        YIELD_HOOK = Some(hook);
    }
    let res = rx.receive_frame(&wire);
    unsafe { YIELD_HOOK = None };
    assert!(unsafe { ACTED });
    kani::cover!(site == 1 && act == 2);
    kani::cover!(site == 2 && act == 3);
    // RX itself survives (returns, no panic) - reaching this line is that clause.
    let _ = res;
    let s = slot(the_loop(), 0);
    match act {
        1 | 3 => {
            // nobody owns the slot any more: it must be free, not parked in a state no one leaves
            assert!(s.state == FrameState::None);
            assert!(the_loop().alloc_frame().is_ok());
        }
        _ => {
            // the slot belongs to B now: B is NOT completed by A's response and is still to be sent
            assert!(s.state == FrameState::Sendable);
            assert!(s.first_pdu == u16::from(unsafe { IDX_B }));
            let sf = tx.next_sendable_frame().unwrap();
            let idx_b = unsafe { IDX_B };
            let _ = sf.send_blocking(|b| {
                // what goes on the wire for B is B's own request, not leftovers of A's response
                assert!(b.len() == 30);
                let own = b[16] == 4 && b[17] == idx_b && u16::from_le_bytes([b[18], b[19]]) == adr_b
                    && b[26] == 0 && b[27] == 0 && b[28] == 0 && b[29] == 0;
                if site == 1 {
                    // abandoned after the claim, before the copy (known finding F6 on the current tree)
                    assert!(site == 1 && own);
                } else {
                    assert!(site == 2 && own);
                }
                Ok(30)
            });
        }
    }
}

//@ harness: c01_drop_window
//@ property: C01, C20
//@ tier: quick
//@ config: yield
//@ unwind: 8
//@ timeout: 1200
//@ functions: ReceivedFrame::drop; FrameBox::clear_first_pdu; PduLoop::alloc_frame; CreatedFrame::push_pdu; CreatedFrame::mark_sendable; PduStorageRef::frame_index_by_first_pdu_index
//@ bounds: 1 slot; a finished response is dropped; at yield point 3 (slot released, index not yet cleared) another task allocates the slot for request B and queues it; one context switch
//@ stubs: embassy_time_driver::now -> virtual clock; schedule_wake -> no-op
#[kani::proof]
#[kani::unwind(8)]
#[kani::stub(embassy_time_driver::now, crate::verif::support::vnow)]
#[kani::stub(embassy_time_driver::schedule_wake, crate::verif::support::vschedule_wake)]
pub fn c01_drop_window() {
    let (_tx, _rx, pdu_loop) = STORAGE.try_split().unwrap();
    unsafe { LOOP = Some(pdu_loop) };
    set_now(0);
    // task A is reading a response: slot in RxProcessing
    forge(the_loop(), 0, Slot { state: FrameState::RxProcessing, first_pdu: u16::from(kani::any::<u8>()), payload_len: 14, slot_index: 0 });
    the_loop().verif_storage_ref().verif_set_cursors(0, kani::any());
    let st = the_loop().verif_storage_ref();
    let frame = ReceivedFrame::verif_from_frame_element(st.frame_at_index(0), st.verif_pdu_idx(), FRAME);
    unsafe {
        SITE = 3;
        ACT = 2;
        ACTED = false;
        ADR_B = kani::any();
        YIELD_HOOK = Some(hook);
    }
    drop(frame);
    unsafe { YIELD_HOOK = None };
    assert!(unsafe { ACTED });
    kani::cover!(true);
    // If the slot was not free yet at the yield point, B gets it right after the drop instead.
    if unsafe { (*core::ptr::addr_of!(FUT_B)).is_none() } {
        let mut f = the_loop().alloc_frame().unwrap();
        let h = f.push_pdu(Command::fprd(unsafe { ADR_B }, 0x0130).into(), (), Some(2)).unwrap();
        unsafe {
            IDX_B = h.pdu_idx;
            FUT_B = Some(f.mark_sendable(the_loop(), pdu_timeout(), 0));
        }
    }
    // B owns the slot and its response must still be routable to it: the index B registered is intact
    let s = slot(the_loop(), 0);
    assert!(s.state == FrameState::Sendable);
    assert!(s.first_pdu == u16::from(unsafe { IDX_B }));
    assert!(s.first_pdu != FIRST_PDU_EMPTY);
}

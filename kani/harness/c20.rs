// NOT RUN (tier: off): two requests on two slots through the real TX/RX path with symbolic arrival and
// poll order ran out of memory at 30 GB after ~50 min of CBMC. C20 is decided by the one-step
// harnesses listed below instead (routing from every pair of slot states, capacity error, index
// survival under a concurrent drop, view lifetime).
//
// C20: tasks sharing one MainDevice do not disturb each other.
//
// Decided at await-point granularity on the real transport: two requests by two tasks are in
// flight on two slots; the order in which their responses arrive and the order in which the tasks
// are polled are symbolic. (Routing from every pair of slot states: c05_receive_any_2; capacity
// errors instead of corruption: c02_alloc_step_*; index uniqueness across frames: c04 harnesses.)
use crate::{
    Command, PduStorage,
    pdu_loop::VerifFrameState as FrameState,
    verif::{c02::pdu_timeout, support::*},
};
use core::{future::Future, pin::pin, task::{Context, Poll}};

const FRAME: usize = 32;

//@ harness: c20_two_inflight
//@ property: C20, C01
//@ tier: off
//@ unwind: 8
//@ unwindset: c20_two_inflight:32
//@ timeout: 3000
//@ functions: PduLoop::alloc_frame; CreatedFrame::push_pdu; CreatedFrame::mark_sendable; ReceiveFrameFut::poll; PduTx::next_sendable_frame; SendableFrame::send_blocking; PduRx::receive_frame; PduStorageRef::frame_index_by_first_pdu_index; ReceivedFrame::first_pdu
//@ bounds: 2 tasks x 1 request (FPRD, 2 bytes, different symbolic addresses) on 2 slots; symbolic arrival order of the two responses (A,B / B,A); symbolic poll order; symbolic data and working counters; symbolic start value of the shared 8-bit datagram index (incl. wrap)
//@ stubs: embassy_time_driver::now -> virtual clock (no deadline passes); schedule_wake -> no-op
//@ outside: 3-4 tasks, SDO transfers in parallel, pre-emption inside library calls
#[kani::proof]
#[kani::unwind(8)]
#[kani::stub(embassy_time_driver::now, crate::verif::support::vnow)]
#[kani::stub(embassy_time_driver::schedule_wake, crate::verif::support::vschedule_wake)]
pub fn c20_two_inflight() {
    static STORAGE: PduStorage<2, FRAME> = PduStorage::new();
    let (mut tx, mut rx, pdu_loop) = STORAGE.try_split().unwrap();
    let w = noop_waker();
    let mut cx = Context::from_waker(&w);
    set_now(0);
    pdu_loop.verif_storage_ref().verif_set_cursors(0, kani::any());

    let adr_a: u16 = kani::any();
    let adr_b: u16 = kani::any();
    let mut fa = pdu_loop.alloc_frame().unwrap();
    let ha = fa.push_pdu(Command::fprd(adr_a, 0x0130).into(), (), Some(2)).unwrap();
    let mut fb = pdu_loop.alloc_frame().unwrap();
    let hb = fb.push_pdu(Command::fprd(adr_b, 0x0130).into(), (), Some(2)).unwrap();
    // storage is full: a third task gets a capacity error, nothing else happens
    assert!(pdu_loop.alloc_frame().is_err());
    let mut fut_a = pin!(fa.mark_sendable(&pdu_loop, pdu_timeout(), 0));
    let mut fut_b = pin!(fb.mark_sendable(&pdu_loop, pdu_timeout(), 0));
    assert!(fut_a.as_mut().poll(&mut cx).is_pending());
    assert!(fut_b.as_mut().poll(&mut cx).is_pending());

    // TX task sends both frames
    let mut wires = [[0u8; 30]; 2];
    let mut k = 0;
    while k < 2 {
        let sf = tx.next_sendable_frame().unwrap();
        let _ = sf.send_blocking(|b| {
            assert!(b.len() == 30);
            let mut i = 0;
            while i < 30 {
                wires[k][i] = b[i];
                i += 1;
            }
            Ok(30)
        });
        k += 1;
    }
    assert!(tx.next_sendable_frame().is_none());
    // which captured frame is A's? (by datagram index)
    let ia = if wires[0][17] == ha.pdu_idx { 0 } else { 1 };
    let ib = 1 - ia;
    assert!(wires[ia][17] == ha.pdu_idx && wires[ib][17] == hb.pdu_idx && ha.pdu_idx != hb.pdu_idx);
    assert!(u16::from_le_bytes([wires[ia][18], wires[ia][19]]) == adr_a);
    assert!(u16::from_le_bytes([wires[ib][18], wires[ib][19]]) == adr_b);

    // the segment answers each frame with its own register value
    let va: [u8; 2] = kani::any();
    let vb: [u8; 2] = kani::any();
    let wa: u16 = kani::any();
    let wb: u16 = kani::any();
    for (i, v, wk) in [(ia, va, wa), (ib, vb, wb)] {
        wires[i][6] = 0x12;
        wires[i][26] = v[0];
        wires[i][27] = v[1];
        wires[i][28] = wk.to_le_bytes()[0];
        wires[i][29] = wk.to_le_bytes()[1];
    }
    // arrival order is symbolic
    let b_first: bool = kani::any();
    let (first, second) = if b_first { (ib, ia) } else { (ia, ib) };
    assert!(rx.receive_frame(&wires[first]).is_ok());
    // the other task is still waiting and unaffected
    if kani::any() {
        let other_pending = if b_first { fut_a.as_mut().poll(&mut cx).is_pending() } else { fut_b.as_mut().poll(&mut cx).is_pending() };
        assert!(other_pending);
    }
    assert!(rx.receive_frame(&wires[second]).is_ok());
    kani::cover!(b_first);

    // poll order is symbolic
    let poll_b_first: bool = kani::any();
    let mut ra = None;
    let mut rb = None;
    if poll_b_first {
        if let Poll::Ready(x) = fut_b.as_mut().poll(&mut cx) { rb = Some(x); }
    }
    if let Poll::Ready(x) = fut_a.as_mut().poll(&mut cx) { ra = Some(x); }
    if !poll_b_first {
        if let Poll::Ready(x) = fut_b.as_mut().poll(&mut cx) { rb = Some(x); }
    }
    let pa = ra.unwrap().unwrap().first_pdu(ha).unwrap();
    assert!(pa.len() == 2 && pa[0] == va[0] && pa[1] == va[1] && pa.working_counter == wa);
    let pb = rb.unwrap().unwrap().first_pdu(hb).unwrap();
    assert!(pb.len() == 2 && pb[0] == vb[0] && pb[1] == vb[1] && pb.working_counter == wb);
    assert!(slot(&pdu_loop, 0).state == FrameState::None && slot(&pdu_loop, 1).state == FrameState::None);
}

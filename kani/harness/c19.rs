// C19: derived wire encodings match their declared layout and round-trip.
//
// This module holds (1) the independent reference bit-packer all C19 harnesses (here and in the
// generated module `c19_gen`) compare the real code against, and (2) harnesses for the hand-written
// wire impls of /repo (PduFlags, EthercatFrameHeader, primitives, bool, arrays, tuples).
//
// Reference model of the wire format ("declared layout"): a packed item of N bytes is the
// little-endian integer W = sum(buf[k] << 8k). A field declared at bit position `start` with width
// `len` occupies bits [start, start+len) of W, least significant bit first. Nothing else.
use ethercrab_wire::{
    EtherCrabWireRead, EtherCrabWireSized, EtherCrabWireWrite, EtherCrabWireWriteSized, WireError,
};

/// Bits [start, start+len) of the little-endian integer formed by `buf` (len <= 64).
#[allow(trivial_numeric_casts, trivial_casts)]
pub fn ref_get(buf: &[u8], start: usize, len: usize) -> u64 {
    let mut v = 0u64;
    let mut i = 0;
    while i < len {
        let p = start + i;
        v |= (((buf[p >> 3] >> (p & 7)) & 1) as u64) << i;
        i += 1;
    }
    v
}

/// OR the low `len` bits of `v` into bits [start, start+len) of `buf`.
#[allow(trivial_numeric_casts, trivial_casts)]
pub fn ref_put(buf: &mut [u8], start: usize, len: usize, v: u64) {
    let mut i = 0;
    while i < len {
        let p = start + i;
        buf[p >> 3] |= (((v >> i) & 1) as u8) << (p & 7);
        i += 1;
    }
}

#[allow(trivial_numeric_casts, trivial_casts)]
pub fn mask(len: usize) -> u64 {
    if len >= 64 { u64::MAX } else { (1u64 << len) - 1 }
}

/// Element-wise comparison with concrete indices (no memcmp loop).
#[allow(trivial_numeric_casts, trivial_casts)]
pub fn same<const N: usize>(a: &[u8], b: &[u8; N]) -> bool {
    if a.len() != N {
        return false;
    }
    let mut ok = true;
    let mut i = 0;
    while i < N {
        ok &= a[i] == b[i];
        i += 1;
    }
    ok
}

// =================================================================================================
// Reference functions for the hand-written wire impls that derived structs of /repo use as field
// types (the generated module calls these as opq_*_<Type>). `raw` is the field's bit range as an
// unsigned integer.
use crate::eeprom::types::{
    CoeDetails, Flags, MailboxProtocols, PortStatus, PortStatuses, SyncManagerEnable,
};
use crate::pdu_loop::{
    VerifEthercatFrameHeader as EthercatFrameHeader, VerifPduFlags as PduFlags,
    VerifProtocolType as ProtocolType,
};

// bitflags: every bit is a flag position; bits without a flag constant are an undefined value.
#[allow(trivial_numeric_casts, trivial_casts)]
pub(crate) fn opq_valid_Flags(raw: u64) -> bool {
    raw & !0x1f == 0
}
#[allow(trivial_numeric_casts, trivial_casts)]
pub(crate) fn opq_chk_Flags(v: &Flags, raw: u64) -> bool {
    v.bits() as u64 == raw
}
#[allow(trivial_numeric_casts, trivial_casts)]
pub(crate) fn opq_eq_Flags(a: &Flags, b: &Flags) -> bool {
    a.bits() == b.bits()
}
#[allow(trivial_numeric_casts, trivial_casts)]
pub(crate) fn opq_valid_CoeDetails(raw: u64) -> bool {
    raw & !0x3f == 0
}
#[allow(trivial_numeric_casts, trivial_casts)]
pub(crate) fn opq_chk_CoeDetails(v: &CoeDetails, raw: u64) -> bool {
    v.bits() as u64 == raw
}
#[allow(trivial_numeric_casts, trivial_casts)]
pub(crate) fn opq_eq_CoeDetails(a: &CoeDetails, b: &CoeDetails) -> bool {
    a.bits() == b.bits()
}
#[allow(trivial_numeric_casts, trivial_casts)]
pub(crate) fn opq_valid_SyncManagerEnable(raw: u64) -> bool {
    raw & !0x0f == 0
}
#[allow(trivial_numeric_casts, trivial_casts)]
pub(crate) fn opq_chk_SyncManagerEnable(v: &SyncManagerEnable, raw: u64) -> bool {
    v.bits() as u64 == raw
}
#[allow(trivial_numeric_casts, trivial_casts)]
pub(crate) fn opq_eq_SyncManagerEnable(a: &SyncManagerEnable, b: &SyncManagerEnable) -> bool {
    a.bits() == b.bits()
}
// Declared 2 bytes wide, only the low byte carries flags (source comment); the high byte is ignored.
#[allow(trivial_numeric_casts, trivial_casts)]
pub(crate) fn opq_valid_MailboxProtocols(raw: u64) -> bool {
    (raw & 0xff) & !0x3f == 0
}
#[allow(trivial_numeric_casts, trivial_casts)]
pub(crate) fn opq_chk_MailboxProtocols(v: &MailboxProtocols, raw: u64) -> bool {
    v.bits() as u64 == raw & 0xff
}
#[allow(trivial_numeric_casts, trivial_casts)]
pub(crate) fn opq_eq_MailboxProtocols(a: &MailboxProtocols, b: &MailboxProtocols) -> bool {
    a.bits() == b.bits()
}
// Four 4-bit port descriptors, port 0 in the lowest nibble; undefined values decode to the default.
#[allow(trivial_numeric_casts, trivial_casts)]
fn ref_port_status(n: u64) -> PortStatus {
    match n {
        1 => PortStatus::Mii,
        2 => PortStatus::Reserved,
        3 => PortStatus::Ebus,
        4 => PortStatus::FastHotConnect,
        _ => PortStatus::Unused,
    }
}
#[allow(trivial_numeric_casts, trivial_casts)]
pub(crate) fn opq_chk_PortStatuses(v: &PortStatuses, raw: u64) -> bool {
    v.0[0] == ref_port_status(raw & 0xf)
        && v.0[1] == ref_port_status((raw >> 4) & 0xf)
        && v.0[2] == ref_port_status((raw >> 8) & 0xf)
        && v.0[3] == ref_port_status((raw >> 12) & 0xf)
}
#[allow(trivial_numeric_casts, trivial_casts)]
pub(crate) fn opq_eq_PortStatuses(a: &PortStatuses, b: &PortStatuses) -> bool {
    a.0[0] == b.0[0] && a.0[1] == b.0[1] && a.0[2] == b.0[2] && a.0[3] == b.0[3]
}
// PduFlags (ETG1000.4 5.4.1.2): LEN bits 0..11, reserved 11..14, C bit 14, NEXT bit 15.
#[allow(trivial_numeric_casts, trivial_casts)]
pub(crate) fn opq_any_PduFlags() -> PduFlags {
    PduFlags {
        length: kani::any(),
        circulated: kani::any(),
        more_follows: kani::any(),
    }
}
#[allow(trivial_numeric_casts, trivial_casts)]
pub(crate) fn opq_exp_PduFlags(v: &PduFlags) -> u64 {
    let mut b = [0u8; 2];
    ref_put(&mut b, 0, 11, v.length as u64);
    ref_put(&mut b, 14, 1, v.circulated as u64);
    ref_put(&mut b, 15, 1, v.more_follows as u64);
    ref_get(&b, 0, 16)
}
#[allow(trivial_numeric_casts, trivial_casts)]
pub(crate) fn opq_fits_PduFlags(v: &PduFlags) -> bool {
    v.length as u64 <= mask(11)
}
#[allow(trivial_numeric_casts, trivial_casts)]
pub(crate) fn opq_chk_PduFlags(v: &PduFlags, raw: u64) -> bool {
    v.length as u64 == raw & mask(11)
        && v.circulated == ((raw >> 14) & 1 == 1)
        && v.more_follows == ((raw >> 15) & 1 == 1)
}
#[allow(trivial_numeric_casts, trivial_casts)]
pub(crate) fn opq_eq_PduFlags(a: &PduFlags, b: &PduFlags) -> bool {
    a.length == b.length && a.circulated == b.circulated && a.more_follows == b.more_follows
}

// =================================================================================================
// Hand-written wire impls: standalone harnesses

//@ harness: c19_pdu_flags
//@ property: C19
//@ tier: quick
//@ unwind: 20
//@ functions: PduFlags::pack; PduFlags::pack_to_slice; PduFlags::unpack_from_slice
//@ bounds: symbolic PduFlags (u16 length, 2 bools); symbolic 4 byte source/destination with symbolic slice length 0..4; unwind 20 = 16 bit reference loop + margin
//@ assumes: slice lengths <= 4; round trip asserted for length <= 0x7ff (11 bit LEN field)
//@ outside: nothing for this type
#[kani::proof]
#[kani::unwind(20)]
#[allow(trivial_numeric_casts, trivial_casts)]
pub fn c19_pdu_flags() {
    let v = opq_any_PduFlags();
    let e = opq_exp_PduFlags(&v);
    let exp = [e as u8, (e >> 8) as u8];
    let out = v.pack();
    kani::cover!(v.length > 0x7ff);
    // placement; reserved bits 11..14 are zero even for an over-wide length
    assert!(same(&out, &exp));
    assert!(out[1] & 0b0011_1000 == 0);
    let mut dst: [u8; 4] = kani::any();
    let (t2, t3) = (dst[2], dst[3]);
    let n: usize = kani::any();
    kani::assume(n <= 4);
    let w = v.pack_to_slice(&mut dst[..n]);
    kani::cover!(n < 2);
    kani::cover!(n >= 2);
    match w {
        Ok(s) => {
            assert!(n >= 2);
            assert!(same(s, &exp));
        }
        Err(e) => {
            assert!(n < 2);
            assert!(e == WireError::WriteBufferTooShort);
        }
    }
    assert!(dst[2] == t2 && dst[3] == t3);
    let buf: [u8; 4] = kani::any();
    let m: usize = kani::any();
    kani::assume(m <= 4);
    let r = PduFlags::unpack_from_slice(&buf[..m]);
    kani::cover!(m >= 2 && r.is_ok());
    match r {
        Ok(u) => {
            assert!(m >= 2);
            assert!(opq_chk_PduFlags(&u, ref_get(&buf, 0, 16)));
        }
        Err(e) => {
            assert!(m < 2);
            assert!(e == WireError::ReadBufferTooShort);
        }
    }
    if opq_fits_PduFlags(&v) {
        match PduFlags::unpack_from_slice(&out) {
            Ok(u) => assert!(opq_eq_PduFlags(&u, &v)),
            Err(_) => assert!(false),
        }
    }
}

//@ harness: c19_frame_header
//@ property: C19
//@ tier: quick
//@ unwind: 20
//@ functions: EthercatFrameHeader::pack_to_slice; EthercatFrameHeader::pack_to_slice_unchecked; EthercatFrameHeader::unpack_from_slice; EthercatFrameHeader::pdu; ProtocolType::unpack_from_slice
//@ bounds: symbolic payload_len; symbolic 4 byte buffers with symbolic slice length 0..4
//@ assumes: payload_len <= 0x7ff (the 11 bit LEN field; pack() does not mask an over-wide payload_len, unlike the derived code, see report); slice lengths <= 4
//@ outside: protocol values other than DlPdu cannot be constructed (single variant enum)
#[kani::proof]
#[kani::unwind(20)]
#[allow(trivial_numeric_casts, trivial_casts)]
pub fn c19_frame_header() {
    // layout (ETG1000.4 Table 12): LEN bits 0..11, reserved bit 11, TYPE bits 12..16
    let len: u16 = kani::any();
    kani::assume(len <= 0x7ff);
    let v = EthercatFrameHeader {
        payload_len: len,
        protocol: ProtocolType::DlPdu,
    };
    let p = EthercatFrameHeader::pdu(len);
    assert!(p.payload_len == len && p.protocol == ProtocolType::DlPdu);
    let mut exp = [0u8; 2];
    ref_put(&mut exp, 0, 11, len as u64);
    ref_put(&mut exp, 12, 4, 1);
    let mut dst: [u8; 4] = kani::any();
    let (t2, t3) = (dst[2], dst[3]);
    let n: usize = kani::any();
    kani::assume(n <= 4);
    let w = v.pack_to_slice(&mut dst[..n]);
    kani::cover!(n < 2);
    kani::cover!(n >= 2);
    match w {
        Ok(s) => {
            assert!(n >= 2);
            assert!(same(s, &exp));
        }
        Err(e) => {
            assert!(n < 2);
            assert!(e == WireError::WriteBufferTooShort);
        }
    }
    assert!(dst[2] == t2 && dst[3] == t3);
    let buf: [u8; 4] = kani::any();
    let m: usize = kani::any();
    kani::assume(m <= 4);
    let r = EthercatFrameHeader::unpack_from_slice(&buf[..m]);
    kani::cover!(m >= 2 && r.is_ok());
    kani::cover!(m >= 2 && r.is_err());
    match r {
        Ok(u) => {
            assert!(m >= 2);
            assert!(ref_get(&buf, 12, 4) == 1);
            assert!(u.payload_len as u64 == ref_get(&buf, 0, 11));
            assert!(u.protocol == ProtocolType::DlPdu);
        }
        Err(e) => {
            if m < 2 {
                assert!(e == WireError::ReadBufferTooShort);
            } else {
                assert!(e == WireError::InvalidValue);
                assert!(ref_get(&buf, 12, 4) != 1);
            }
        }
    }
    if n >= 2 {
        match EthercatFrameHeader::unpack_from_slice(&dst[..n]) {
            Ok(u) => assert!(u == v),
            Err(_) => assert!(false),
        }
    }
}

macro_rules! prim_check {
    ($ty:ty, $uty:ty, $size:expr, $tobits:expr) => {{
        const S: usize = $size;
        let v: $ty = kani::any();
        let bits: $uty = $tobits(v);
        let mut exp = [0u8; S];
        ref_put(&mut exp, 0, 8 * S, bits as u64);
        let out = v.pack();
        assert!(same(&out, &exp));
        assert!(v.packed_len() == S);
        assert!(<$ty as EtherCrabWireSized>::PACKED_LEN == S);
        let mut dst: [u8; S + 1] = kani::any();
        let last = dst[S];
        let n: usize = kani::any();
        kani::assume(n <= S + 1);
        let w = v.pack_to_slice(&mut dst[..n]);
        kani::cover!(n < S);
        match w {
            Ok(s) => {
                assert!(n >= S);
                assert!(same(s, &exp));
            }
            Err(e) => {
                assert!(n < S);
                assert!(e == WireError::WriteBufferTooShort);
            }
        }
        assert!(dst[S] == last);
        let buf: [u8; S + 1] = kani::any();
        let m: usize = kani::any();
        kani::assume(m <= S + 1);
        let r = <$ty as EtherCrabWireRead>::unpack_from_slice(&buf[..m]);
        kani::cover!(m >= S && r.is_ok());
        match r {
            Ok(u) => {
                assert!(m >= S);
                assert!($tobits(u) as u64 == ref_get(&buf, 0, 8 * S));
            }
            Err(e) => {
                assert!(m < S);
                assert!(e == WireError::ReadBufferTooShort);
            }
        }
        match <$ty as EtherCrabWireRead>::unpack_from_slice(&out) {
            Ok(u) => assert!($tobits(u) == bits),
            Err(_) => assert!(false),
        }
    }};
}

//@ harness: c19_primitives
//@ property: C19
//@ tier: quick
//@ unwind: 66
//@ functions: u8::pack; u16::pack; u32::pack; u64::pack; i8::pack; i16::pack; i32::pack; i64::pack; f32::pack; f64::pack; bool::pack; u8::unpack_from_slice; u16::unpack_from_slice; u32::unpack_from_slice; u64::unpack_from_slice; i8::unpack_from_slice; i16::unpack_from_slice; i32::unpack_from_slice; i64::unpack_from_slice; f32::unpack_from_slice; f64::unpack_from_slice; bool::unpack_from_slice; u16::pack_to_slice
//@ bounds: symbolic value of each primitive; symbolic buffers of size+1 bytes, symbolic slice length; unwind 66 = 64 bit reference loop + 2
//@ assumes: slice lengths <= size+1
//@ outside: u128/i128 have no wire impl
#[kani::proof]
#[kani::unwind(66)]
#[allow(trivial_numeric_casts, trivial_casts)]
pub fn c19_primitives() {
    prim_check!(u8, u8, 1, |x: u8| x);
    prim_check!(u16, u16, 2, |x: u16| x);
    prim_check!(u32, u32, 4, |x: u32| x);
    prim_check!(u64, u64, 8, |x: u64| x);
    prim_check!(i8, u8, 1, |x: i8| x as u8);
    prim_check!(i16, u16, 2, |x: i16| x as u16);
    prim_check!(i32, u32, 4, |x: i32| x as u32);
    prim_check!(i64, u64, 8, |x: i64| x as u64);
    prim_check!(f32, u32, 4, |x: f32| x.to_bits());
    prim_check!(f64, u64, 8, |x: f64| x.to_bits());
    // bool: ETG1000.6 5.2.2: true = 0xff, false = 0; any non-zero byte decodes to true
    let b: bool = kani::any();
    let out = b.pack();
    assert!(out[0] == if b { 0xff } else { 0 });
    let buf: [u8; 2] = kani::any();
    let m: usize = kani::any();
    kani::assume(m <= 2);
    match bool::unpack_from_slice(&buf[..m]) {
        Ok(u) => {
            assert!(m >= 1);
            assert!(u == (buf[0] != 0));
        }
        Err(e) => {
            assert!(m == 0);
            assert!(e == WireError::ReadBufferTooShort);
        }
    }
    let mut dst: [u8; 2] = kani::any();
    let n: usize = kani::any();
    kani::assume(n <= 2);
    match b.pack_to_slice(&mut dst[..n]) {
        Ok(s) => {
            assert!(n >= 1);
            assert!(s.len() == 1 && s[0] == out[0]);
        }
        Err(e) => {
            assert!(n == 0);
            assert!(e == WireError::WriteBufferTooShort);
        }
    }
    assert!(bool::unpack_from_slice(&out) == Ok(b));
    // unit
    let empty: [u8; 0] = [];
    assert!(<() as EtherCrabWireRead>::unpack_from_slice(&empty) == Ok(()));
    assert!(().packed_len() == 0);
}

//@ harness: c19_arrays
//@ property: C19
//@ tier: quick
//@ unwind: 18
//@ unwindset: ChunksExact:4
//@ functions: [u8; N]::pack_to_slice; [u8; N]::unpack_from_slice; [u16; N]::unpack_from_slice
//@ bounds: [u8; 3] written into a symbolic 5 byte destination with symbolic slice length; [u8; 2] and [u16; 2] read from a symbolic 5 byte buffer at every slice length 0..=5; unwind 18 = 16 bit reference loop + 2; the iterator loops of [T; N]::unpack_from_slice get N + 2 = 4
//@ assumes: slice lengths <= 5
//@ outside: other N / element types (same generic code; [u32; 2] and N = 3 in c19_arrays_t)
#[kani::proof]
#[kani::unwind(18)]
#[allow(trivial_numeric_casts, trivial_casts)]
pub fn c19_arrays() {
    let a: [u8; 3] = kani::any();
    let mut dst: [u8; 5] = kani::any();
    let (t3, t4) = (dst[3], dst[4]);
    let n: usize = kani::any();
    kani::assume(n <= 5);
    let w = a.pack_to_slice(&mut dst[..n]);
    kani::cover!(n < 3);
    kani::cover!(n >= 3);
    match w {
        Ok(s) => {
            assert!(n >= 3);
            assert!(same(s, &a));
        }
        Err(e) => {
            assert!(n < 3);
            assert!(e == WireError::WriteBufferTooShort);
        }
    }
    assert!(dst[3] == t3 && dst[4] == t4);
    // decoding a slice of symbolic length is ~10x more expensive for CBMC than a concrete length:
    // every length 0..=5 is enumerated, the contents stay symbolic
    let buf: [u8; 5] = kani::any();
    let mut m: usize = 0;
    while m <= 5 {
        match <[u8; 2]>::unpack_from_slice(&buf[..m]) {
            Ok(u) => {
                assert!(m >= 2);
                assert!(u[0] == buf[0] && u[1] == buf[1]);
            }
            Err(e) => {
                assert!(m < 2);
                assert!(e == WireError::ReadBufferTooShort);
            }
        }
        let r = <[u16; 2]>::unpack_from_slice(&buf[..m]);
        kani::cover!(r.is_ok());
        kani::cover!(r.is_err());
        match r {
            Ok(u) => {
                assert!(m >= 4);
                assert!(u[0] as u64 == ref_get(&buf, 0, 16));
                assert!(u[1] as u64 == ref_get(&buf, 16, 16));
            }
            Err(e) => {
                assert!(m < 4);
                assert!(e == WireError::ReadBufferTooShort);
            }
        }
        m += 1;
    }
    assert!(<[u16; 2] as EtherCrabWireSized>::PACKED_LEN == 4);
}

//@ harness: c19_arrays_t
//@ property: C19
//@ tier: thorough
//@ unwind: 34
//@ unwindset: ChunksExact:5
//@ functions: [u8; N]::pack_to_slice; [u8; N]::unpack_from_slice; [u16; N]::unpack_from_slice; [u32; N]::unpack_from_slice
//@ bounds: [u8; 3] written; [u8; 3], [u16; 3], [u32; 2] read from a symbolic 9 byte buffer at every slice length 0..=9; unwind 34 = 32 bit reference loop + 2; the iterator loops of [T; N]::unpack_from_slice get N + 2 = 5
//@ assumes: slice lengths <= buffer size
//@ outside: other N / element types (same generic code)
#[kani::proof]
#[kani::unwind(34)]
#[allow(trivial_numeric_casts, trivial_casts)]
pub fn c19_arrays_t() {
    // write [u8; 3]
    let a: [u8; 3] = kani::any();
    let mut dst: [u8; 5] = kani::any();
    let (t3, t4) = (dst[3], dst[4]);
    let n: usize = kani::any();
    kani::assume(n <= 5);
    let w = a.pack_to_slice(&mut dst[..n]);
    kani::cover!(n < 3);
    kani::cover!(n >= 3);
    match w {
        Ok(s) => {
            assert!(n >= 3);
            assert!(same(s, &a));
        }
        Err(e) => {
            assert!(n < 3);
            assert!(e == WireError::WriteBufferTooShort);
        }
    }
    assert!(dst[3] == t3 && dst[4] == t4);
    // read [u8; 3]
    let buf: [u8; 9] = kani::any();
    let mut m: usize = 0;
    while m <= 9 {
    match <[u8; 3]>::unpack_from_slice(&buf[..m]) {
        Ok(u) => {
            assert!(m >= 3);
            assert!(u[0] == buf[0] && u[1] == buf[1] && u[2] == buf[2]);
        }
        Err(e) => {
            assert!(m < 3);
            assert!(e == WireError::ReadBufferTooShort);
        }
    }
    let r = <[u16; 3]>::unpack_from_slice(&buf[..m]);
    kani::cover!(r.is_ok());
    kani::cover!(r.is_err());
    match r {
        Ok(u) => {
            assert!(m >= 6);
            assert!(u[0] as u64 == ref_get(&buf, 0, 16));
            assert!(u[1] as u64 == ref_get(&buf, 16, 16));
            assert!(u[2] as u64 == ref_get(&buf, 32, 16));
        }
        Err(e) => {
            assert!(m < 6);
            assert!(e == WireError::ReadBufferTooShort);
        }
    }
    match <[u32; 2]>::unpack_from_slice(&buf[..m]) {
        Ok(u) => {
            assert!(m >= 8);
            assert!(u[0] as u64 == ref_get(&buf, 0, 32));
            assert!(u[1] as u64 == ref_get(&buf, 32, 32));
        }
        Err(e) => {
            assert!(m < 8);
            assert!(e == WireError::ReadBufferTooShort);
        }
    }
    m += 1;
    }
    assert!(<[u16; 3] as EtherCrabWireSized>::PACKED_LEN == 6);
}

//@ harness: c19_tuples
//@ property: C19
//@ tier: quick
//@ unwind: 34
//@ functions: (T0, T1, T2)::unpack_from_slice; (T0, T1, T2)::pack_to_slice; (T0, T1, T2)::packed_len
//@ bounds: (u32, u8, u16) with symbolic values; symbolic 9 byte buffers with symbolic slice length
//@ assumes: slice lengths <= 9
//@ outside: other arities (same macro body); tuple members whose unpack accepts fewer than PACKED_LEN bytes (see c19_find_tuple_short)
#[kani::proof]
#[kani::unwind(34)]
#[allow(trivial_numeric_casts, trivial_casts)]
pub fn c19_tuples() {
    let v: (u32, u8, u16) = (kani::any(), kani::any(), kani::any());
    let mut exp = [0u8; 7];
    ref_put(&mut exp, 0, 32, v.0 as u64);
    ref_put(&mut exp, 32, 8, v.1 as u64);
    ref_put(&mut exp, 40, 16, v.2 as u64);
    assert!(v.packed_len() == 7);
    let mut dst: [u8; 9] = kani::any();
    let (t7, t8) = (dst[7], dst[8]);
    let n: usize = kani::any();
    kani::assume(n <= 9);
    let w = v.pack_to_slice(&mut dst[..n]);
    kani::cover!(n < 7);
    kani::cover!(n >= 7);
    match w {
        Ok(s) => {
            assert!(n >= 7);
            assert!(same(s, &exp));
        }
        Err(e) => {
            assert!(n < 7);
            assert!(e == WireError::WriteBufferTooShort);
        }
    }
    assert!(dst[7] == t7 && dst[8] == t8);
    let buf: [u8; 9] = kani::any();
    let m: usize = kani::any();
    kani::assume(m <= 9);
    let r = <(u32, u8, u16)>::unpack_from_slice(&buf[..m]);
    kani::cover!(r.is_ok());
    kani::cover!(r.is_err());
    match r {
        Ok(u) => {
            assert!(m >= 7);
            assert!(u.0 as u64 == ref_get(&buf, 0, 32));
            assert!(u.1 as u64 == ref_get(&buf, 32, 8));
            assert!(u.2 as u64 == ref_get(&buf, 40, 16));
        }
        Err(e) => {
            assert!(m < 7);
            assert!(e == WireError::ReadBufferTooShort);
        }
    }
}

//@ harness: c19_find_tuple_short
//@ property: C19
//@ tier: quick
//@ unwind: 8
//@ functions: (T0, T1)::unpack_from_slice; heapless::Vec<u8, N>::unpack_from_slice
//@ bounds: (heapless::Vec<u8, 4>, u8) decoded from a symbolic 6 byte buffer with symbolic slice length 0..6; unwind 8 > 4 elements + 2
//@ assumes: slice length <= 6
//@ outside: nothing
//@ expect_fail: tuple unpack advances with `buf = &buf[T::PACKED_LEN..]` whenever buf is non-empty; heapless::Vec<u8, 4> (PACKED_LEN 4) decodes successfully from 1..3 bytes, so a 1..3 byte buffer makes the slice index panic instead of returning an error
#[kani::proof]
#[kani::unwind(8)]
#[allow(trivial_numeric_casts, trivial_casts)]
pub fn c19_find_tuple_short() {
    let buf: [u8; 6] = kani::any();
    let m: usize = kani::any();
    kani::assume(m <= 6);
    let r = <(heapless::Vec<u8, 4>, u8)>::unpack_from_slice(&buf[..m]);
    kani::cover!(r.is_ok());
    kani::cover!(r.is_err());
    if let Ok(u) = r {
        assert!(m >= 5);
        assert!(u.0.len() == 4 && u.1 == buf[4]);
    }
}

//@ harness: c19_find_array_buffer
//@ property: C19
//@ tier: quick
//@ unwind: 4
//@ functions: <[u16; N] as EtherCrabWireSized>::buffer
//@ bounds: concrete: [u16; 3]
//@ assumes: none
//@ outside: nothing
//@ expect_fail: impl EtherCrabWireSized for [$ty; N] declares PACKED_LEN = N * size but Buffer = [u8; N]; buffer() is shorter than PACKED_LEN for every element type wider than one byte
#[kani::proof]
#[kani::unwind(4)]
#[allow(trivial_numeric_casts, trivial_casts)]
pub fn c19_find_array_buffer() {
    let b = <[u16; 3] as EtherCrabWireSized>::buffer();
    kani::cover!(true);
    assert!(b.len() == <[u16; 3] as EtherCrabWireSized>::PACKED_LEN);
}

//@ harness: c19_heapless_vec
//@ property: C19
//@ tier: quick
//@ unwind: 18
//@ unwindset: ChunksExact:5
//@ timeout: 400
//@ functions: heapless::Vec<T, N>::unpack_from_slice
//@ bounds: Vec<u8, 3> and Vec<u16, 2> from a symbolic 5 byte buffer at every slice length 0..=5; unwind 18 = 16 bit reference loop + 2; iterator loops 5 = at most 3 elements + 2
//@ assumes: slice lengths <= 5
//@ outside: larger N; Vec element types other than u8/u16
#[kani::proof]
#[kani::unwind(18)]
#[allow(trivial_numeric_casts, trivial_casts)]
pub fn c19_heapless_vec() {
    let buf: [u8; 5] = kani::any();
    let mut m: usize = 0;
    while m <= 5 {
    // Vec<u8, N>: takes min(len, N) elements, never fails
    match <heapless::Vec<u8, 3>>::unpack_from_slice(&buf[..m]) {
        Ok(v) => {
            let exp = if m < 3 { m } else { 3 };
            kani::cover!(v.len() == 3);
            kani::cover!(v.len() == 0);
            assert!(v.len() == exp);
            if exp > 0 { assert!(v[0] == buf[0]); }
            if exp > 1 { assert!(v[1] == buf[1]); }
            if exp > 2 { assert!(v[2] == buf[2]); }
        }
        Err(_) => assert!(false),
    }
    // Vec<u16, N>: whole little-endian elements only
    match <heapless::Vec<u16, 2>>::unpack_from_slice(&buf[..m]) {
        Ok(v) => {
            let exp = if m / 2 < 2 { m / 2 } else { 2 };
            assert!(v.len() == exp);
            if exp > 0 { assert!(v[0] as u64 == ref_get(&buf, 0, 16)); }
            if exp > 1 { assert!(v[1] as u64 == ref_get(&buf, 16, 16)); }
        }
        Err(_) => assert!(false),
    }
    m += 1;
    }
}

//@ harness: c19_heapless_string
//@ property: C19
//@ tier: thorough
//@ unwind: 8
//@ timeout: 400
//@ functions: heapless::String<N>::unpack_from_slice
//@ bounds: String<1> from a symbolic slice of 0..2 bytes
//@ assumes: slice length <= 2
//@ outside: longer strings (core::str::from_utf8 on symbolic bytes is expensive for CBMC)
#[kani::proof]
#[kani::unwind(8)]
#[allow(trivial_numeric_casts, trivial_casts)]
pub fn c19_heapless_string() {
    // String<N>: valid UTF-8 of at most N bytes, otherwise an error (never a panic)
    let buf: [u8; 2] = kani::any();
    let k: usize = kani::any();
    kani::assume(k <= 2);
    let r = <heapless::String<1>>::unpack_from_slice(&buf[..k]);
    kani::cover!(r.is_ok());
    kani::cover!(r == Err(WireError::ArrayLength));
    kani::cover!(r == Err(WireError::InvalidUtf8));
    match r {
        Ok(s) => {
            assert!(k <= 1);
            assert!(s.len() == k);
            if k > 0 { assert!(s.as_bytes()[0] == buf[0] && buf[0] < 0x80); }
        }
        Err(e) => {
            assert!(e == WireError::ArrayLength || e == WireError::InvalidUtf8);
            if e == WireError::ArrayLength { assert!(k == 2); }
            if k == 0 || (k == 1 && buf[0] < 0x80) { assert!(false); }
        }
    }
}

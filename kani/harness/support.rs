// Shared harness support: no-op waker, single-poll executor, virtual clock.
use core::{
    future::Future,
    pin::pin,
    task::{Context, Poll, RawWaker, RawWakerVTable, Waker},
};

fn rw_clone(_: *const ()) -> RawWaker {
    RawWaker::new(core::ptr::null(), &VTABLE)
}
fn rw_noop(_: *const ()) {}
static VTABLE: RawWakerVTable = RawWakerVTable::new(rw_clone, rw_noop, rw_noop, rw_noop);

pub fn noop_waker() -> Waker {
    unsafe { Waker::from_raw(RawWaker::new(core::ptr::null(), &VTABLE)) }
}

/// Poll a future once; `None` if it is still pending.
pub fn poll_once<F: Future>(f: core::pin::Pin<&mut F>) -> Option<F::Output> {
    let w = noop_waker();
    let mut cx = Context::from_waker(&w);
    match f.poll(&mut cx) {
        Poll::Ready(v) => Some(v),
        Poll::Pending => None,
    }
}

/// Run a future that must complete without ever suspending (all providers used by the harnesses
/// answer immediately). A pending result is a harness error, not a property verdict.
pub fn run_ready<F: Future>(f: F) -> F::Output {
    let mut f = pin!(f);
    match poll_once(f.as_mut()) {
        Some(v) => v,
        None => {
            // Unreachable for immediate providers; make it visible if it ever is not.
            panic!("verif: future unexpectedly pending");
        }
    }
}

// ---- virtual clock (stubs for embassy_time_driver) -------------------------------------------
pub static mut VNOW: u64 = 0;

pub fn vnow() -> u64 {
    unsafe { VNOW }
}
pub fn vschedule_wake(_at: u64, _waker: &Waker) {}
pub fn set_now(t: u64) {
    unsafe { VNOW = t }
}

// Shared harness support: no-op waker, single-poll executor, virtual clock.
use core::{
    future::Future,
    pin::pin,
    task::{Context, Poll, RawWaker, RawWakerVTable, Waker},
};

fn rw_clone(_: *const ()) -> RawWaker {
    RawWaker::new(core::ptr::null(), &VTABLE)
}
fn rw_noop(_: *const ()) {}
static VTABLE: RawWakerVTable = RawWakerVTable::new(rw_clone, rw_noop, rw_noop, rw_noop);

pub fn noop_waker() -> Waker {
    unsafe { Waker::from_raw(RawWaker::new(core::ptr::null(), &VTABLE)) }
}

/// Poll a future once; `None` if it is still pending.
pub fn poll_once<F: Future>(f: core::pin::Pin<&mut F>) -> Option<F::Output> {
    let w = noop_waker();
    let mut cx = Context::from_waker(&w);
    match f.poll(&mut cx) {
        Poll::Ready(v) => Some(v),
        Poll::Pending => None,
    }
}

/// Run a future that must complete without ever suspending (all providers used by the harnesses
/// answer immediately). A pending result is a harness error, not a property verdict.
pub fn run_ready<F: Future>(f: F) -> F::Output {
    let mut f = pin!(f);
    match poll_once(f.as_mut()) {
        Some(v) => v,
        None => {
            // Unreachable for immediate providers; make it visible if it ever is not.
            panic!("verif: future unexpectedly pending");
        }
    }
}

// ---- virtual clock (stubs for embassy_time_driver) -------------------------------------------
pub static mut VNOW: u64 = 0;

pub fn vnow() -> u64 {
    unsafe { VNOW }
}
pub static mut LAST_WAKE_AT: u64 = 0;
pub static mut WAKE_CALLS: u32 = 0;
/// Stub for embassy_time_driver::schedule_wake: records the instant the caller asked to be woken at.
pub fn vschedule_wake(at: u64, _waker: &Waker) {
    unsafe {
        LAST_WAKE_AT = at;
        WAKE_CALLS += 1;
    }
}
pub fn last_wake_at() -> u64 {
    unsafe { LAST_WAKE_AT }
}
pub fn set_now(t: u64) {
    unsafe { VNOW = t }
}

// ---- PDU loop slot inspection (uses the cfg(ethercrab_verif) hooks in pdu_loop) ---------------
use crate::pdu_loop::{VerifFrameElement as FrameElement, VerifFrameState as FrameState};

#[derive(Clone, Copy, PartialEq, Debug)]
pub struct Slot {
    pub state: FrameState,
    pub first_pdu: u16,
    pub payload_len: usize,
    pub slot_index: u8,
}

pub fn slot(pdu_loop: &crate::PduLoop<'_>, idx: usize) -> Slot {
    let f = pdu_loop.verif_storage_ref().frame_at_index(idx);
    let (state, first_pdu, payload_len, slot_index) = unsafe { FrameElement::verif_inspect(f) };
    Slot { state, first_pdu, payload_len, slot_index }
}

pub fn forge(pdu_loop: &crate::PduLoop<'_>, idx: usize, s: Slot) {
    let f = pdu_loop.verif_storage_ref().frame_at_index(idx);
    unsafe { FrameElement::verif_forge(f, s.state, s.first_pdu, s.payload_len, s.slot_index) }
}

/// Byte `i` of slot `idx`'s Ethernet frame buffer.
pub fn slot_byte(pdu_loop: &crate::PduLoop<'_>, idx: usize, i: usize) -> u8 {
    let f = pdu_loop.verif_storage_ref().frame_at_index(idx);
    unsafe { *FrameElement::verif_buf_ptr(f).add(i) }
}

pub fn set_slot_byte(pdu_loop: &crate::PduLoop<'_>, idx: usize, i: usize, v: u8) {
    let f = pdu_loop.verif_storage_ref().frame_at_index(idx);
    unsafe { *FrameElement::verif_buf_ptr(f).add(i) = v }
}

#[cfg(kani)]
pub fn any_state() -> FrameState {
    match kani::any::<u8>() % 8 {
        0 => FrameState::None,
        1 => FrameState::Created,
        2 => FrameState::Sendable,
        3 => FrameState::Sending,
        4 => FrameState::Sent,
        5 => FrameState::RxBusy,
        6 => FrameState::RxDone,
        _ => FrameState::RxProcessing,
    }
}

// ---- SubDevice construction (all fields are crate-visible) ------------------------------------
pub fn mk_subdevice(configured_address: u16, index: u16) -> crate::SubDevice {
    crate::SubDevice {
        configured_address,
        alias_address: 0,
        config: Default::default(),
        identity: Default::default(),
        name: heapless::String::new(),
        ports: Default::default(),
        dc_support: crate::DcSupport::None,
        dc_receive_time: 0,
        index,
        parent_index: None,
        propagation_delay: 0,
        mailbox_counter: core::sync::atomic::AtomicU8::new(1),
        dc_sync: crate::DcSync::Disabled,
        oversampling_config: &[],
    }
}

// ---- pre-emption points (H3; only compiled into builds with --cfg ethercrab_verif_yield="on") ----
// At a yield point inside a library function the harness may run steps of OTHER actors
// (sequentialised bounded context switch, depth 1).
pub static mut YIELD_HOOK: Option<fn(u32)> = None;
pub fn yield_point(site: u32) {
    unsafe {
        if let Some(f) = YIELD_HOOK {
            f(site)
        }
    }
}
